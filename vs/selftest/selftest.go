// Package selftest checks the scheduler runtime itself: micro-programs written directly against the shims are
// explored exhaustively and the SET of outcomes must be exactly what the Go specification allows.
// Run with: ./check SELFTEST  (not a property; an engine self-check).
package selftest

import (
	"fmt"
	"sort"
	"strings"
	"time"

	"github.com/tmaxmax/go-sse/vrt"
	"github.com/tmaxmax/go-sse/vrt/vatomic"
	"github.com/tmaxmax/go-sse/vrt/vctx"
	"github.com/tmaxmax/go-sse/vrt/vsync"
	"github.com/tmaxmax/go-sse/vrt/vtime"
)

type prog struct {
	name string
	body func(out *[]string)
	want []string // expected outcome set (sorted); an outcome is the joined out list, or the engine's outcome kind
	opts vrt.Options
}

func progs() []prog {
	un := vrt.Options{PreemptBound: -1, FaultBound: -1, OrderBound: -1}
	return []prog{
		// (the two segments after a rendezvous run receiver first; by the fusion rule they must not communicate
		// through unsynchronised memory, so only the values matter here)
		{name: "unbuffered rendezvous transfers the value", opts: un, want: []string{"recv 1,sent"},
			body: func(out *[]string) {
				c := vrt.MakeChan[int](0)
				h := vrt.GoNamed("s", func() { vrt.Send(c, 1); *out = append(*out, "sent") })
				v := vrt.Recv(c)
				*out = append(*out, fmt.Sprint("recv ", v))
				vrt.Join(h)
			}},
		{name: "select takes any ready case", opts: un, want: []string{"a", "b"},
			body: func(out *[]string) {
				a, b := vrt.MakeChan[int](1), vrt.MakeChan[int](1)
				vrt.Send(a, 1)
				vrt.Send(b, 2)
				ca, cb := vrt.CaseRecv(a), vrt.CaseRecv(b)
				if vrt.Select(false, ca, cb) == 0 {
					*out = append(*out, "a")
				} else {
					*out = append(*out, "b")
				}
			}},
		{name: "select default only when nothing is ready", opts: un, want: []string{"default", "got"},
			body: func(out *[]string) {
				c := vrt.MakeChan[int](0)
				h := vrt.GoNamed("s", func() {
					cs := vrt.CaseSend(c, 1)
					vrt.Select(true, cs)
				})
				cr := vrt.CaseRecv(c)
				if vrt.Select(true, cr) == -1 {
					*out = append(*out, "default")
				} else {
					*out = append(*out, "got")
				}
				vrt.Join(h)
			}},
		{name: "buffered channel is FIFO; close drains then yields zero,false", opts: un, want: []string{"1 true,2 true,0 false"},
			body: func(out *[]string) {
				c := vrt.MakeChan[int](2)
				vrt.Send(c, 1)
				vrt.Send(c, 2)
				vrt.Close(c)
				for i := 0; i < 3; i++ {
					v, ok := vrt.Recv2(c)
					*out = append(*out, fmt.Sprint(v, " ", ok))
				}
			}},
		{name: "send on closed channel panics", opts: un, want: []string{"panic send on closed channel"},
			body: func(out *[]string) {
				defer func() { *out = append(*out, fmt.Sprint("panic ", recover())) }()
				c := vrt.MakeChan[int](1)
				vrt.Close(c)
				vrt.Send(c, 1)
			}},
		{name: "double close panics", opts: un, want: []string{"panic close of closed channel"},
			body: func(out *[]string) {
				defer func() { *out = append(*out, fmt.Sprint("panic ", recover())) }()
				c := vrt.MakeChan[int](0)
				vrt.Close(c)
				vrt.Close(c)
			}},
		{name: "close wakes every blocked receiver", opts: un, want: []string{"done"},
			body: func(out *[]string) {
				c := vrt.MakeChan[int](0)
				var hs []vrt.Handle
				for i := 0; i < 2; i++ {
					hs = append(hs, vrt.Go2(func() { vrt.Recv(c) }))
				}
				vrt.Close(c)
				vrt.Join(hs...)
				*out = append(*out, "done")
			}},
		{name: "nil channel blocks forever: deadlock is reported", opts: un, want: []string{"deadlock"},
			body: func(out *[]string) {
				var c chan int
				vrt.Recv(c)
			}},
		{name: "Once runs the function once and others wait for it", opts: un, want: []string{"1"},
			body: func(out *[]string) {
				var o vsync.Once
				n := 0
				ready := false
				var hs []vrt.Handle
				for i := 0; i < 3; i++ {
					hs = append(hs, vrt.Go2(func() {
						o.Do(func() { n++; vrt.Yield("inside once"); ready = true })
						if !ready {
							vrt.Fail("Once.Do returned before the function finished")
						}
					}))
				}
				vrt.Join(hs...)
				*out = append(*out, fmt.Sprint(n))
			}},
		{name: "Mutex excludes; without it an update is lost", opts: un, want: []string{"locked 2,unlocked 1", "locked 2,unlocked 2"},
			body: func(out *[]string) {
				var mu vsync.Mutex
				a, b := 0, 0
				var hs []vrt.Handle
				for i := 0; i < 2; i++ {
					hs = append(hs, vrt.Go2(func() {
						mu.Lock()
						t := a
						vrt.Yield("critical")
						a = t + 1
						mu.Unlock()
						t = b
						vrt.Yield("racy")
						b = t + 1
					}))
				}
				vrt.Join(hs...)
				*out = append(*out, fmt.Sprint("locked ", a), fmt.Sprint("unlocked ", b))
			}},
		{name: "RWMutex: readers together, writer alone", opts: un, want: []string{"max readers 1", "max readers 2"},
			body: func(out *[]string) {
				var mu vsync.RWMutex
				readers, max, writing := 0, 0, false
				var hs []vrt.Handle
				for i := 0; i < 2; i++ {
					hs = append(hs, vrt.Go2(func() {
						mu.RLock()
						if writing {
							vrt.Fail("reader inside while a writer holds the lock")
						}
						readers++
						if readers > max {
							max = readers
						}
						vrt.Yield("reading")
						readers--
						mu.RUnlock()
					}))
				}
				hs = append(hs, vrt.Go2(func() {
					mu.Lock()
					if readers != 0 {
						vrt.Fail("writer inside while readers hold the lock")
					}
					writing = true
					vrt.Yield("writing")
					writing = false
					mu.Unlock()
				}))
				vrt.Join(hs...)
				*out = append(*out, fmt.Sprint("max readers ", max))
			}},
		{name: "WaitGroup waits for all", opts: un, want: []string{"2"},
			body: func(out *[]string) {
				var wg vsync.WaitGroup
				n := 0
				wg.Add(2)
				for i := 0; i < 2; i++ {
					vrt.Go(func() { vrt.Yield("work"); n++; wg.Done() })
				}
				wg.Wait()
				*out = append(*out, fmt.Sprint(n))
			}},
		{name: "atomic CAS: exactly one winner", opts: un, want: []string{"winners 1"},
			body: func(out *[]string) {
				var f vatomic.Int32
				w := 0
				var hs []vrt.Handle
				for i := 0; i < 3; i++ {
					hs = append(hs, vrt.Go2(func() {
						if f.CompareAndSwap(0, 1) {
							w++
						}
					}))
				}
				vrt.Join(hs...)
				*out = append(*out, fmt.Sprint("winners ", w))
			}},
		{name: "context: cancel propagates to children; timeout fires on the virtual clock", opts: un, want: []string{"child context canceled,timeout context deadline exceeded at 5s"},
			body: func(out *[]string) {
				root := vrt.NewCtx("root")
				child, cancel := vctx.WithCancel(root)
				defer cancel()
				to, c2 := vctx.WithTimeout(vctx.Background(), 5*time.Second)
				defer c2()
				root.Cancel()
				vrt.Recv(child.Done())
				*out = append(*out, fmt.Sprint("child ", child.Err()))
				vrt.Recv(to.Done())
				*out = append(*out, fmt.Sprint("timeout ", to.Err(), " at ", vtime.Since(vtime.Base)))
			}},
		{name: "timer versus cancellation: both orders", opts: un, want: []string{"cancelled", "timer"},
			body: func(out *[]string) {
				ctx := vrt.NewCtx("c")
				t := vtime.NewTimer(time.Second)
				h := vrt.GoNamed("canceller", func() { ctx.Cancel() })
				ct, cd := vrt.CaseRecv(t.C), vrt.CaseRecv(ctx.Done())
				if vrt.Select(false, ct, cd) == 0 {
					*out = append(*out, "timer")
				} else {
					*out = append(*out, "cancelled")
				}
				vrt.Join(h)
			}},
		{name: "map iteration: all orders", opts: un, want: []string{"abc", "acb", "bac", "bca", "cab", "cba"},
			body: func(out *[]string) {
				m := map[string]int{"a": 1, "b": 2, "c": 3}
				s := ""
				for _, e := range vrt.MapIter(m) {
					s += e.Key
				}
				*out = append(*out, s)
			}},
		{name: "map iteration with an order budget of 0: canonical order only", opts: vrt.Options{PreemptBound: -1, FaultBound: -1, OrderBound: 0}, want: []string{"abc"},
			body: func(out *[]string) {
				m := map[string]int{"a": 1, "b": 2, "c": 3}
				s := ""
				for _, e := range vrt.MapIter(m) {
					s += e.Key
				}
				*out = append(*out, s)
			}},
		{name: "preemption bound 0: a thread runs until it blocks", opts: vrt.Options{PreemptBound: 0, FaultBound: -1, OrderBound: -1}, want: []string{"AABB", "BBAA"},
			body: func(out *[]string) {
				s := ""
				var hs []vrt.Handle
				for _, n := range []string{"A", "B"} {
					hs = append(hs, vrt.Go2(func() { vrt.Yield("1"); s += n; vrt.Yield("2"); s += n }))
				}
				vrt.Join(hs...)
				*out = append(*out, s)
			}},
		{name: "Pool: empty in every execution, LIFO, New on a miss", opts: un, want: []string{"new,2,1,new"},
			body: func(out *[]string) {
				p := &vsync.Pool{New: func() any { return "new" }}
				a := p.Get()
				p.Put("1")
				p.Put("2")
				*out = append(*out, fmt.Sprint(a), fmt.Sprint(p.Get()), fmt.Sprint(p.Get()), fmt.Sprint(p.Get()))
			}},
		{name: "Cond: a Signal between Unlock and sleep is not lost; Broadcast wakes all", opts: un, want: []string{"woken 2"},
			body: func(out *[]string) {
				var mu vsync.Mutex
				c := vsync.NewCond(&mu)
				ready, woken := 0, 0
				var hs []vrt.Handle
				for i := 0; i < 2; i++ {
					hs = append(hs, vrt.Go2(func() {
						mu.Lock()
						for ready == 0 {
							c.Wait()
						}
						woken++
						mu.Unlock()
					}))
				}
				mu.Lock()
				ready = 1
				mu.Unlock()
				c.Broadcast()
				vrt.Join(hs...)
				*out = append(*out, fmt.Sprint("woken ", woken))
			}},
		{name: "TryLock fails while the mutex is held and succeeds when it is free", opts: un, want: []string{"false true"},
			body: func(out *[]string) {
				var mu vsync.Mutex
				mu.Lock()
				a := mu.TryLock()
				mu.Unlock()
				b := mu.TryLock()
				*out = append(*out, fmt.Sprint(a, " ", b))
			}},
		{name: "AfterFunc runs its function on the virtual clock", opts: un, want: []string{"after at 2s"},
			body: func(out *[]string) {
				afterAt := int64(-1)
				done := vrt.MakeChan[struct{}](1)
				vtime.AfterFunc(2*time.Second, func() { afterAt = vrt.Now(); vrt.Send(done, struct{}{}) })
				vrt.Recv(done)
				*out = append(*out, fmt.Sprintf("after at %ds", afterAt/int64(time.Second)))
			}},
		{name: "len of a controlled channel is its buffered count", opts: un, want: []string{"0 2 1"},
			body: func(out *[]string) {
				c := vrt.MakeChan[int](3)
				a := vrt.ChanLen(c)
				vrt.Send(c, 1)
				vrt.Send(c, 2)
				b := vrt.ChanLen(c)
				vrt.Recv(c)
				*out = append(*out, fmt.Sprint(a, " ", b, " ", vrt.ChanLen(c)))
			}},
	}
}

// Run explores every micro-program with and without pruning; returns the failures.
func Run() (report []string, failed int) {
	for _, p := range progs() {
		for _, prune := range []bool{false, true} {
			set := map[string]bool{}
			var cur *[]string
			x := &vrt.Explorer{Name: p.name, Opts: p.opts, KeepGoing: true,
				Body: func() {
					o := []string{}
					cur = &o
					vrt.SetUser(cur)
					p.body(cur)
				},
				Check: func(r *vrt.Result) string {
					o, _ := r.User.(*[]string)
					switch {
					case r.Outcome == vrt.Done && o != nil:
						set[strings.Join(*o, ",")] = true
					default:
						set[r.Outcome] = true
					}
					return ""
				}}
			x.Opts.Prune = prune
			x.Deadline = time.Now().Add(20 * time.Second) // a micro-program that does not finish in this time is a failure
			start := time.Now()
			err := x.Explore()
			if time.Since(start) > 19*time.Second {
				err = fmt.Errorf("not explored completely within 20 s")
			}
			var got []string
			for k := range set {
				got = append(got, k)
			}
			sort.Strings(got)
			ok := err == nil && strings.Join(got, "|") == strings.Join(p.want, "|")
			if !ok {
				failed++
			}
			report = append(report, fmt.Sprintf("%-5v prune=%-5v %-70s executions=%-5d outcomes=%v%s", ok, prune, p.name, x.Stats.Executions, got, map[bool]string{true: "", false: fmt.Sprintf("  WANT %v err=%v", p.want, err)}[ok]))
		}
	}
	return
}
