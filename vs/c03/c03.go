// Package c03: Joe delivers each message exactly once, in order, to matching subscribers. DESIGN.md section 4, C03.
package c03

import (
	"context"
	"fmt"
	"strings"
	"time"

	sse "github.com/tmaxmax/go-sse"
	"github.com/tmaxmax/go-sse/vrt"

	"verif/vs/jh"
	"verif/vs/jo"
	"verif/vs/run"
)

type SubP struct {
	Topics []string
	Cancel bool // a thread cancels this subscriber after noting which publishes had returned
	Slow   bool
	FailAt int // its FailAt-th Send/Flush call fails (0: never)
}

type MsgP struct {
	Tag    string
	Topics []string
	// Value != "": this publication reuses the one *Message of that name (a prebuilt event published again and
	// again); Tag is then Value@n for its n-th publication.
	Value string
}

type Params struct {
	Name    string
	Subs    []SubP
	Pubs    [][]MsgP // one thread per entry
	PreInit bool
	Preempt int
	// Shutdown: a thread notes which Publish calls have returned and then calls Shutdown while everything runs.
	Shutdown bool
	// Inner: "finite" / "valid" puts a real replayer (automatic IDs) behind the recording one.
	Inner string
	// Phased: the subscribers register one after the other (each Subscribe is started once the previous one has
	// reached Joe's loop) and the publishers start afterwards; map iteration in canonical order only. For
	// scenarios with many subscribers, where only Joe and the publishers interleave.
	Phased bool
	// NoReplayer: Joe without a Replayer (the default configuration). There is no serialisation witness then:
	// the universal clauses and per-publisher gap-freedom are what is checked.
	NoReplayer bool
}

type world struct {
	JL   *jh.JoeLog
	Subs []*jo.Sub
	Msgs []*jo.Msg
	Shut error
	// concurrent Shutdown
	Conc        bool
	Repeats     map[string]bool
	DoneBefore  map[string]bool
	ConcShutErr error
	NoRep       bool
}

func body(p Params) func() {
	return func() {
		w := &world{JL: &jh.JoeLog{}}
		vrt.SetUser(w)
		rep := &jh.Replayer{JL: w.JL}
		switch p.Inner {
		case "finite":
			f, _ := sse.NewFiniteReplayer(4, true)
			rep.Inner = f
		case "valid":
			v, _ := sse.NewValidReplayer(time.Hour, true)
			v.Now = func() time.Time { return time.Date(2030, 1, 1, 0, 0, 0, 0, time.UTC) }
			rep.Inner = v
		}
		if p.Phased {
			rep.Reg = vrt.MakeChan[string](64)
		}
		j := &sse.Joe{Replayer: rep}
		if p.NoReplayer {
			j = &sse.Joe{}
			w.NoRep = true
		}
		if p.PreInit && p.Inner != "" {
			jh.PreInitFor(j, true)
		} else if p.PreInit {
			jh.PreInit(j)
		}
		// per publisher: how many of its publishes have returned
		var done []*vrt.Shared
		for i := range p.Pubs {
			done = append(done, vrt.NewShared(fmt.Sprintf("P%d.done", i+1), 0))
		}
		var subs, others []vrt.Handle
		for i, sp := range p.Subs {
			name := fmt.Sprintf("S%d", i+1)
			ctx := vrt.NewCtx(name)
			ret := vrt.NewShared(name+".returned", 0)
			wr := &jh.Writer{Name: fmt.Sprintf("W%d", i+1), Ctx: ctx, JL: w.JL, Returned: ret, Slow: sp.Slow, FailAt: sp.FailAt}
			rec := &jo.Sub{W: wr, Topics: sp.Topics, Cancel: sp.Cancel}
			w.Subs = append(w.Subs, rec)
			subs = append(subs, vrt.GoNamed(name, func() {
				err := j.Subscribe(ctx, sse.Subscription{Client: wr, Topics: sp.Topics})
				ret.Poke(1)
				rec.Returned, rec.Err = true, err
			}))
			if p.Phased {
				vrt.Recv(rep.Reg)
			}
			if sp.Cancel {
				others = append(others, vrt.GoNamed(fmt.Sprintf("C%d", i+1), func() {
					rec.DoneBefore = map[string]bool{}
					// one step: note which publishes have returned, then request the cancellation
					vrt.Yield(name + ": snapshot published, cancel")
					for pi, d := range done {
						n := int(d.Peek())
						for k := 0; k < n; k++ {
							rec.DoneBefore[p.Pubs[pi][k].Tag] = true
						}
					}
					ctx.CancelNow()
				}))
			}
		}
		values := map[string]*sse.Message{}
		for pi, prog := range p.Pubs {
			var recs []*jo.Msg
			for k, m := range prog {
				if m.Value != "" && values[m.Value] == nil {
					values[m.Value] = jh.Msg(m.Value, "")
					if w.Repeats == nil {
						w.Repeats = map[string]bool{}
					}
					w.Repeats[m.Value] = true
				}
				r := &jo.Msg{Tag: m.Tag, Topics: m.Topics, Pub: pi, Seq: k}
				recs = append(recs, r)
				w.Msgs = append(w.Msgs, r)
			}
			others = append(others, vrt.GoNamed(fmt.Sprintf("P%d", pi+1), func() {
				for k, m := range prog {
					msg := values[m.Value]
					if msg == nil {
						msg = jh.Msg(m.Tag, "")
					}
					recs[k].Err = j.Publish(msg, append([]string(nil), m.Topics...))
					recs[k].Returned = true
					done[pi].Poke(int64(k + 1)) // same step as Publish's last synchronisation operation
				}
			}))
		}
		if p.Shutdown {
			w.Conc = true
			others = append(others, vrt.GoNamed("D", func() {
				w.DoneBefore = map[string]bool{}
				vrt.Yield("D: snapshot published, shutdown")
				for pi, d := range done {
					n := int(d.Peek())
					for k := 0; k < n; k++ {
						w.DoneBefore[p.Pubs[pi][k].Tag] = true
					}
				}
				w.ConcShutErr = j.Shutdown(context.Background())
			}))
		}
		vrt.Join(others...)
		w.Shut = j.Shutdown(context.Background())
		vrt.Join(subs...)
	}
}

func spec(w *world) *jo.Spec {
	return &jo.Spec{JL: w.JL, HasReplayer: !w.NoRep, Subs: w.Subs, Msgs: w.Msgs, Ignore: map[string]bool{"init": true},
		ConcurrentShutdown: w.Conc, DoneBeforeShutdown: w.DoneBefore, Repeats: w.Repeats}
}

func check(r *vrt.Result) string {
	if r.Outcome != vrt.Done {
		return r.Outcome + ": " + r.Msg
	}
	w := r.User.(*world)
	if w.Conc {
		if w.ConcShutErr != nil || w.Shut != sse.ErrProviderClosed {
			return fmt.Sprintf("the concurrent Shutdown returned %v and the one after it %v, want nil and ErrProviderClosed", w.ConcShutErr, w.Shut)
		}
	} else if w.Shut != nil {
		return fmt.Sprintf("Shutdown returned %v", w.Shut)
	}
	return jo.Check(spec(w))
}

func summary(r *vrt.Result) string {
	w, _ := r.User.(*world)
	if w == nil {
		return r.Outcome
	}
	var sb strings.Builder
	sb.WriteString(r.Outcome + " " + w.JL.String())
	for _, s := range w.Subs {
		fmt.Fprintf(&sb, " | %s err=%v", s.W.Name, s.Err)
	}
	return sb.String()
}

func sig(r *vrt.Result, msg string) string {
	s := run.NormSig(r, msg)
	for _, cut := range []string{" (topics", " never received"} {
		if i := strings.Index(s, cut); i >= 0 && cut == " (topics" {
			if j := strings.Index(s, ") "); j > i {
				s = s[:i] + s[j+1:]
			}
		}
	}
	if i := strings.Index(s, " never received"); i >= 0 {
		tail := ""
		if strings.Contains(s, "before the cancellation was requested") {
			tail = " (published before its cancellation was requested)"
		}
		s = s[:i] + " never received a message it was owed" + tail
	}
	return s
}

func scen(p Params) run.Scenario {
	return run.Scenario{Name: p.Name, Body: body(p), Check: check, Sig: sig, Summary: summary,
		Opts: vrt.Options{PreemptBound: p.Preempt, FaultBound: -1, OrderBound: map[bool]int{false: -1, true: 0}[p.Phased], Prune: true, Race: true}}
}

var (
	tA  = []string{"a"}
	tB  = []string{"b"}
	tAB = []string{"a", "b"}
	tC  = []string{"c"}
	tD  = []string{sse.DefaultTopic}
)

func Scenarios(tier string) []run.Scenario {
	var out []run.Scenario
	add := func(p Params) { out = append(out, scen(p)) }
	bools := []bool{false, true}
	// base: S1{a} (cancelled), S2{a,b}; P1: m1->a, m2->a,b; P2: m3->b
	for _, slow := range bools {
		for _, pre := range bools {
			for cancelWho := 0; cancelWho <= 2; cancelWho++ {
				if tier != "thorough" && cancelWho > 0 && (slow || !pre) {
					continue // quick tier: the cancelling scenarios only with fast clients and Joe pre-initialised
				}
				add(Params{Name: fmt.Sprintf("base-cancel%d-slow%v-preinit%v", cancelWho, slow, pre), PreInit: pre, Preempt: -1,
					Subs: []SubP{{Topics: tA, Cancel: cancelWho == 1, Slow: slow}, {Topics: tAB, Cancel: cancelWho == 2, Slow: slow}},
					Pubs: [][]MsgP{{{Tag: "m1", Topics: tA}, {Tag: "m2", Topics: tAB}}, {{Tag: "m3", Topics: tB}}}})
			}
		}
	}
	// overlap: both subscribers match through two topics; a message nobody matches; the default topic
	for cancelWho := 0; cancelWho <= 2; cancelWho++ {
		add(Params{Name: fmt.Sprintf("overlap-cancel%d", cancelWho), PreInit: true, Preempt: -1,
			Subs: []SubP{{Topics: tAB, Cancel: cancelWho == 1}, {Topics: []string{"b", "a", sse.DefaultTopic}, Cancel: cancelWho == 2}},
			Pubs: [][]MsgP{{{Tag: "m1", Topics: tAB}, {Tag: "m2", Topics: tC}}, {{Tag: "m3", Topics: []string{sse.DefaultTopic, "b"}}}}})
	}
	// a Shutdown in the middle of it all: whatever was published before it was requested still reaches everybody
	for _, slow := range bools {
		if slow && tier != "thorough" {
			continue
		}
		add(Params{Name: fmt.Sprintf("shutdown-concurrent-slow%v", slow), PreInit: true, Preempt: -1, Shutdown: true,
			Subs: []SubP{{Topics: tA, Slow: slow}, {Topics: tAB, Slow: slow}},
			Pubs: [][]MsgP{{{Tag: "m1", Topics: tA}, {Tag: "m2", Topics: tAB}}, {{Tag: "m3", Topics: tB}}}})
	}
	// long topic lists (a dozen topics per message): matching must not depend on list length or on earlier messages
	many := func(first string, prefix string) []string {
		t := []string{first}
		for i := 0; i < 11; i++ {
			t = append(t, fmt.Sprintf("%s%d", prefix, i))
		}
		return t
	}
	add(Params{Name: "many-topics", PreInit: true, Preempt: -1,
		Subs: []SubP{{Topics: tA}, {Topics: []string{"b", "u3"}}},
		Pubs: [][]MsgP{{{Tag: "m1", Topics: many("a", "t")}, {Tag: "m2", Topics: many("zz", "u")}, {Tag: "m3", Topics: many("b", "v")}, {Tag: "m4", Topics: many("yy", "t")}}}})
	// one prebuilt message value published again and again (to several topics, to one, with other messages between)
	for v := 0; v < 3; v++ {
		progs := [][]MsgP{
			{{Tag: "ping@1", Topics: tAB, Value: "ping"}, {Tag: "m1", Topics: tA}, {Tag: "ping@2", Topics: tAB, Value: "ping"}},
			{{Tag: "ping@1", Topics: tA, Value: "ping"}, {Tag: "ping@2", Topics: tAB, Value: "ping"}, {Tag: "ping@3", Topics: []string{"b", "c"}, Value: "ping"}},
			{{Tag: "ping@1", Topics: tAB, Value: "ping"}, {Tag: "ping@2", Topics: tAB, Value: "ping"}},
		}
		pubs := [][]MsgP{progs[v]}
		if v == 2 {
			pubs = append(pubs, []MsgP{{Tag: "m2", Topics: []string{"b", "c"}}})
		}
		add(Params{Name: fmt.Sprintf("same-value-republished-%d", v+1), PreInit: true, Preempt: -1,
			Subs: [][]SubP{{{Topics: tA}, {Topics: tAB}}, {{Topics: tAB}, {Topics: []string{"b", "c"}}}, {{Topics: tAB}, {Topics: []string{"b", "c"}}}}[v], Pubs: pubs})
	}
	// real replayers behind the recorder; topic lists with repetitions, in any order, next to a subscriber of the
	// default topic (the empty string) and one of a topic nobody publishes to
	for _, inner := range []string{"finite", "valid"} {
		add(Params{Name: "repeated-topics-" + inner, PreInit: true, Preempt: -1, Inner: inner,
			Subs: []SubP{{Topics: tA}, {Topics: tD}},
			Pubs: [][]MsgP{{{Tag: "m1", Topics: []string{"b", "a", "b"}}, {Tag: "m2", Topics: []string{"a", "a"}}, {Tag: "m3", Topics: []string{"c", "b", "c", "b"}}}}})
	}
	// nine subscribers (thresholds on the number of subscribers), registered one after the other; topic lists in which
	// the common topic comes first, last and in the middle
	add(Params{Name: "nine-subscribers", PreInit: true, Preempt: -1, Phased: true,
		Subs: []SubP{{Topics: tAB}, {Topics: []string{"b", "a"}}, {Topics: []string{"c", "b"}}, {Topics: tA}, {Topics: tB}, {Topics: []string{"c", "a"}},
			{Topics: []string{"d", "e", "b"}}, {Topics: []string{"zz"}}, {Topics: []string{"b", "c", "d"}}},
		Pubs: [][]MsgP{{{Tag: "m1", Topics: tB}, {Tag: "m2", Topics: tA}, {Tag: "m3", Topics: []string{"c", "b"}}, {Tag: "m4", Topics: []string{"e"}}}}})
	// a neighbour fails: the others still get every message exactly once
	for f := 0; f < 3; f++ {
		for at := 1; at <= 2; at++ {
			subs := []SubP{{Topics: tA}, {Topics: tAB}, {Topics: tA}}
			subs[f].FailAt = at
			add(Params{Name: fmt.Sprintf("neighbour-fails-sub%d-call%d", f+1, at), PreInit: true, Preempt: -1, Subs: subs,
				Pubs: [][]MsgP{{{Tag: "m1", Topics: tA}, {Tag: "m2", Topics: tAB}}}})
		}
	}
	// Joe without a replayer: a subscriber fails and is cancelled at any moment around it; the other one keeps
	// receiving what the publisher goes on to publish
	for f := 0; f < 2; f++ {
		for at := 1; at <= 2; at++ {
			for _, canc := range bools {
				subs := []SubP{{Topics: tA}, {Topics: tAB}}
				subs[f].FailAt, subs[f].Cancel = at, canc
				add(Params{Name: fmt.Sprintf("no-replayer-sub%d-fails-call%d-cancel%v", f+1, at, canc), PreInit: true, Preempt: -1, NoReplayer: true, Subs: subs,
					Pubs: [][]MsgP{{{Tag: "m1", Topics: tA}, {Tag: "m2", Topics: tAB}, {Tag: "m3", Topics: tA}}}})
			}
		}
	}
	add(Params{Name: "no-replayer-cancel", PreInit: true, Preempt: -1, NoReplayer: true, Subs: []SubP{{Topics: tA, Cancel: true}, {Topics: tAB}},
		Pubs: [][]MsgP{{{Tag: "m1", Topics: tA}, {Tag: "m2", Topics: tB}, {Tag: "m3", Topics: tAB}}}})
	if tier == "thorough" {
		add(Params{Name: "no-replayer-cancel-two-publishers", PreInit: true, Preempt: -1, NoReplayer: true, Subs: []SubP{{Topics: tA, Cancel: true}, {Topics: tAB}},
			Pubs: [][]MsgP{{{Tag: "m1", Topics: tA}, {Tag: "m2", Topics: tB}}, {{Tag: "m3", Topics: tAB}, {Tag: "m4", Topics: tA}}}})
		for _, slow := range bools {
			for cancelWho := 0; cancelWho <= 3; cancelWho++ {
				add(Params{Name: fmt.Sprintf("three-cancel%d-slow%v", cancelWho, slow), PreInit: true, Preempt: -1,
					Subs: []SubP{{Topics: tA, Cancel: cancelWho == 1, Slow: slow}, {Topics: tAB, Cancel: cancelWho == 2, Slow: slow}, {Topics: tD, Cancel: cancelWho == 3, Slow: slow}},
					Pubs: [][]MsgP{{{Tag: "m1", Topics: tA}, {Tag: "m2", Topics: tAB}}, {{Tag: "m3", Topics: tB}, {Tag: "m4", Topics: tD}}}})
			}
		}
		add(Params{Name: "three-publishers", PreInit: true, Preempt: -1,
			Subs: []SubP{{Topics: tA, Cancel: true}, {Topics: tAB}},
			Pubs: [][]MsgP{{{Tag: "m1", Topics: tA}, {Tag: "m2", Topics: tAB}}, {{Tag: "m3", Topics: tB}}, {{Tag: "m4", Topics: tA}}}})
	}
	return out
}

var Check = &run.Check{
	ID: "C03", Level: "model_checking",
	Rule: "Scenarios: 2-3 subscribers on disjoint/overlapping/default topics (one of them cancelled by a thread that first notes which Publish calls had returned), 2-3 publisher threads with 3-4 messages, fast and slow (yielding) clients, Joe pre-initialised or initialised by the racing calls, nine subscribers registered one after the other; real Finite/ValidReplayer behind the recorder with topic lists that repeat topics next to a default-topic subscriber; Joe without a replayer with a subscriber that fails and is cancelled around it (per-publisher gap-freedom: whoever received a publisher's k-th message is owed its later ones); one prebuilt *Message value published repeatedly (its publications told apart by the replayer's Put order), final Shutdown (or a Shutdown racing everything, after noting which Publish calls had returned); all interleavings (unbounded, state-key pruning), all select tie-breaks, all map orders. The recording replayer's call order is the serialisation witness.",
	Assumptions: []string{
		"schedules are explored at the granularity of synchronisation operations under sequential consistency (DESIGN.md 2.1)",
		"'published before cancellation was requested' is decided inside each execution through a shared flag set after Publish returned and read by the cancelling thread (an under-approximation of what is owed, never an over-approximation)",
	},
	Scenarios:   Scenarios,
	QuickBudget: 90, ThoroughBudget: 900,
}
