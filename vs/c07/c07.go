// Package c07: Shutdown terminates everything; no provider call blocks forever. DESIGN.md section 4, C07.
package c07

import (
	"context"
	"fmt"
	"strings"
	"time"

	sse "github.com/tmaxmax/go-sse"
	"github.com/tmaxmax/go-sse/vrt"

	"verif/vs/c03"
	"verif/vs/jh"
	"verif/vs/run"
)

// Actors: e = Subscribe without topics, s = Subscribe (never cancelled), c = Subscribe + a thread cancelling it, p = one Publish,
// q = two Publishes from one thread, d = Shutdown(background), x = Shutdown(ctx) + a thread cancelling ctx.
type Params struct {
	Actors  string
	PreInit bool
	Slow    bool // the subscribers' Send contains a scheduling point (a slow client)
	// Replayer: "" none; "ok" a recording replayer; "putpanic" / "replaypanic": its first Put / Replay panics
	// (Joe recovers and stops using it); "puterr": its first Put returns an error; "finite" / "valid": the real
	// replayers with automatic IDs, every publisher's FIRST message carrying an ID of its own (so it is rejected).
	Replayer string
	Preempt  int
}

func (p Params) Name() string {
	rp := ""
	if p.Replayer != "" {
		rp = "-rep" + p.Replayer
	}
	return fmt.Sprintf("%s-preinit%v-slow%v-pb%d%s", p.Actors, p.PreInit, p.Slow, p.Preempt, rp)
}

type shutRec struct {
	Err         error
	Cancellable bool
	JoeAlive    int // goroutines of the code under test alive when Shutdown returned
}

type world struct {
	SubErrs []error
	SubRet  []bool
	PubErrs []error
	Shuts   []*shutRec
	Late    [3]error
	Writers []*jh.Writer
}

func body(p Params) func() {
	return func() {
		w := &world{}
		vrt.SetUser(w)
		j := &sse.Joe{}
		switch p.Replayer {
		case "ok":
			j.Replayer = &jh.Replayer{}
		case "putpanic":
			j.Replayer = &jh.Replayer{PutFailAt: 1, PutFailKind: 1}
		case "replaypanic":
			j.Replayer = &jh.Replayer{ReplayFailAt: 1, ReplayFailKind: 1}
		case "puterr":
			j.Replayer = &jh.Replayer{PutFailAt: 1}
		case "finite":
			f, _ := sse.NewFiniteReplayer(2, true)
			j.Replayer = f
		case "valid":
			v, _ := sse.NewValidReplayer(time.Hour, true)
			v.Now = func() time.Time { return time.Date(2030, 1, 1, 0, 0, 0, 0, time.UTC) }
			j.Replayer = v
		}
		realRep := p.Replayer == "finite" || p.Replayer == "valid"
		if p.PreInit {
			jh.PreInit(j)
		}
		var hs []vrt.Handle
		nsub, npub := 0, 0
		for _, a := range p.Actors {
			switch a {
			case 's', 'c', 'e':
				nsub++
				i := len(w.SubErrs)
				w.SubErrs = append(w.SubErrs, nil)
				w.SubRet = append(w.SubRet, false)
				name := fmt.Sprintf("S%d", nsub)
				ctx := vrt.NewCtx(name)
				ret := vrt.NewShared(name+".returned", 0)
				wr := &jh.Writer{Name: fmt.Sprintf("W%d", nsub), Ctx: ctx, Returned: ret, Slow: p.Slow}
				w.Writers = append(w.Writers, wr)
				var client sse.MessageWriter = wr
				hs = append(hs, vrt.GoNamed(name, func() {
					topics := []string{"a"}
					if a == 'e' {
						topics = nil // a subscription without topics: it matches nothing, but it must still end with Joe
					}
					err := j.Subscribe(ctx, sse.Subscription{Client: client, Topics: topics})
					ret.Poke(1)
					w.SubErrs[i], w.SubRet[i] = err, true
				}))
				if a == 'c' {
					hs = append(hs, vrt.GoNamed(fmt.Sprintf("C%d", nsub), func() { ctx.Cancel() }))
				}
			case 'p', 'q':
				n := 1
				if a == 'q' {
					n = 2
				}
				base := npub
				npub += n
				for k := 0; k < n; k++ {
					w.PubErrs = append(w.PubErrs, fmt.Errorf("Publish did not return"))
				}
				hs = append(hs, vrt.GoNamed(fmt.Sprintf("P%d", base+1), func() {
					for k := 0; k < n; k++ {
						id := ""
						if realRep && k == 0 {
							id = "own" // rejected by a replayer that assigns the IDs itself
						}
						w.PubErrs[base+k] = j.Publish(jh.Msg(fmt.Sprintf("m%d", base+k+1), id), []string{"a"})
					}
				}))
			case 'd', 'x':
				rec := &shutRec{Err: fmt.Errorf("Shutdown did not return"), Cancellable: a == 'x'}
				w.Shuts = append(w.Shuts, rec)
				name := fmt.Sprintf("D%d", len(w.Shuts))
				var ctx context.Context = context.Background()
				if a == 'x' {
					cc := vrt.NewCtx(name)
					ctx = cc
					hs = append(hs, vrt.GoNamed("X"+name, func() { cc.Cancel() }))
				}
				hs = append(hs, vrt.GoNamed(name, func() {
					err := j.Shutdown(ctx)
					rec.JoeAlive = vrt.AliveUnnamed() // same step as Shutdown's last synchronisation operation
					rec.Err = err
				}))
			}
		}
		vrt.Join(hs...)
		// future calls
		lw := &jh.Writer{Name: "Wlate"}
		w.Writers = append(w.Writers, lw)
		w.Late[0] = j.Subscribe(context.Background(), sse.Subscription{Client: lw, Topics: []string{"a"}})
		w.Late[1] = j.Publish(jh.Msg("late", ""), []string{"a"})
		w.Late[2] = j.Shutdown(context.Background())
	}
}

func summary(r *vrt.Result) string {
	w, _ := r.User.(*world)
	if w == nil {
		return r.Outcome
	}
	var sb strings.Builder
	fmt.Fprintf(&sb, "%s sub=%v pub=%v late=%v", r.Outcome, w.SubErrs, w.PubErrs, w.Late)
	for _, s := range w.Shuts {
		fmt.Fprintf(&sb, " shut=%v/%d", s.Err, s.JoeAlive)
	}
	for _, wr := range w.Writers {
		fmt.Fprintf(&sb, " %s=%s", wr.Name, strings.Join(wr.Events, ","))
	}
	return sb.String()
}

func check(r *vrt.Result) string {
	if r.Outcome != vrt.Done {
		// Done = every thread including Joe's goroutine has finished; anything else is a hang or a crash
		return r.Outcome + ": " + r.Msg
	}
	w := r.User.(*world)
	for i, ok := range w.SubRet {
		if !ok {
			return fmt.Sprintf("Subscribe #%d did not return", i+1)
		}
		if e := w.SubErrs[i]; e != nil && e != sse.ErrProviderClosed {
			return fmt.Sprintf("Subscribe #%d returned %v", i+1, e)
		}
	}
	for i, e := range w.PubErrs {
		if e != nil && e != sse.ErrProviderClosed && e != jh.ErrReplay && !strings.Contains(e.Error(), "already has an ID") {
			return fmt.Sprintf("Publish #%d returned %v, want nil or ErrProviderClosed", i+1, e)
		}
	}
	winners := 0
	for i, s := range w.Shuts {
		switch {
		case s.Err == sse.ErrProviderClosed:
		case s.Err == nil:
			winners++
			if s.JoeAlive != 0 {
				return fmt.Sprintf("Shutdown #%d returned nil while Joe's goroutine was still running", i+1)
			}
		case s.Err == context.Canceled && s.Cancellable:
			winners++
		default:
			return fmt.Sprintf("Shutdown #%d returned %v", i+1, s.Err)
		}
	}
	if winners != 1 {
		return fmt.Sprintf("%d Shutdown calls returned nil or their context's error, want exactly one (the others ErrProviderClosed)", winners)
	}
	joeGone := false
	for _, s := range w.Shuts {
		if s.Err == nil {
			joeGone = true // that Shutdown saw Joe's goroutine exit
		}
	}
	for i, e := range w.Late {
		if e == sse.ErrProviderClosed {
			continue
		}
		// While Joe is still winding down (the winning Shutdown gave up on its context), a late Subscribe or
		// Publish may still be served ("delivered, or ErrProviderClosed"); a late Shutdown may not succeed again.
		if i < 2 && e == nil && !joeGone {
			continue
		}
		return fmt.Sprintf("late call #%d (0 Subscribe, 1 Publish, 2 Shutdown) after Shutdown returned %v, want ErrProviderClosed", i, e)
	}
	// a message is delivered at most once to each subscriber and Send is followed by Flush
	for _, wr := range w.Writers {
		seen := map[string]bool{}
		for _, t := range wr.Sent {
			if seen[t] {
				return wr.Name + " received " + t + " twice"
			}
			seen[t] = true
		}
	}
	return ""
}

func multisets(kinds string, size int, pre string, out *[]string) {
	if size == 0 {
		*out = append(*out, pre)
		return
	}
	for i := 0; i < len(kinds); i++ {
		multisets(kinds[i:], size-1, pre+string(kinds[i]), out)
	}
}

func Scenarios(tier string) []run.Scenario {
	var out []run.Scenario
	maxSize := 4
	thorough := tier == "thorough"
	for size := 1; size <= maxSize; size++ {
		var ms []string
		multisets("scpqdx", size, "", &ms)
		for _, a := range ms {
			if !strings.ContainsAny(a, "dx") {
				continue
			}
			if strings.Count(a, "q") > 1 || strings.Count(a, "x") > 1 || strings.Count(a, "s")+strings.Count(a, "c") > 3 {
				continue
			}
			for _, pre := range []bool{false, true} {
				for _, slow := range []bool{false, true} {
					if slow && !(strings.ContainsAny(a, "sc") && strings.ContainsAny(a, "pq")) {
						continue
					}
					if !thorough && size == 4 && (!pre || slow || strings.Count(a, "s")+strings.Count(a, "c") > 2 || strings.Contains(a, "q")) {
						continue // quick tier: the larger four-actor scenarios are left to the thorough tier
					}
					p := Params{Actors: a, PreInit: pre, Slow: slow, Preempt: -1}
					out = append(out, run.Scenario{Name: p.Name(), Body: body(p), Check: check, Sig: run.NormSig, Summary: summary,
						Opts: vrt.Options{PreemptBound: -1, FaultBound: -1, OrderBound: -1, Prune: true, Race: true}})
				}
			}
		}
	}
	// with a replayer: healthy, failing once, or panicking once in Put / Replay (Joe drops it and carries on)
	for _, rp := range []string{"ok", "puterr", "putpanic", "replaypanic", "finite", "valid"} {
		for size := 2; size <= 3; size++ {
			var ms []string
			multisets("scpqd", size, "", &ms)
			for _, a := range ms {
				if strings.Count(a, "d") != 1 || strings.Count(a, "q") > 1 {
					continue
				}
				if (rp == "putpanic" || rp == "puterr" || rp == "finite" || rp == "valid") && !strings.ContainsAny(a, "pq") || rp == "replaypanic" && !strings.ContainsAny(a, "sc") {
					continue
				}
				if !thorough && size == 3 && rp == "ok" {
					continue
				}
				p := Params{Actors: a, PreInit: true, Replayer: rp, Preempt: -1}
				out = append(out, run.Scenario{Name: p.Name(), Body: body(p), Check: check, Sig: run.NormSig, Summary: summary,
					Opts: vrt.Options{PreemptBound: -1, FaultBound: -1, OrderBound: -1, Prune: true, Race: true}})
			}
		}
	}
	// subscriptions without topics
	for _, a := range []string{"ed", "epd", "esd", "eed", "ecd", "edd"} {
		for _, pre := range []bool{false, true} {
			p := Params{Actors: a, PreInit: pre, Preempt: -1}
			out = append(out, run.Scenario{Name: p.Name(), Body: body(p), Check: check, Sig: run.NormSig, Summary: summary,
				Opts: vrt.Options{PreemptBound: -1, FaultBound: -1, OrderBound: -1, Prune: true, Race: true}})
		}
	}
	// a Shutdown racing publishers and slow subscribers with the delivery oracle of C03: a Publish that returned nil
	// before the Shutdown was requested has been delivered to everybody who is owed it
	for _, sc := range c03.Scenarios(tier) {
		if strings.HasPrefix(sc.Name, "shutdown-concurrent") {
			out = append(out, sc)
		}
	}
	return out
}

var Check = &run.Check{
	ID: "C07", Level: "model_checking",
	Rule: "Scenarios: every multiset of up to 4 actors (quick: all of size <= 3 and the four-actor ones with Joe pre-initialised, fast clients, at most two subscribers and single publishes) from {Subscribe, Subscribe+cancel, Publish, 2xPublish, Shutdown(background), Shutdown(ctx)+cancel} containing a Shutdown, x Joe initialised beforehand or by the racing calls x fast/slow subscribers, followed by late Subscribe/Publish/Shutdown calls; the multisets of 2-3 actors also with a replayer that is healthy, fails once, or panics once in Put or in Replay, or is a real Finite/ValidReplayer that rejects each publisher's first message; plus C03's Shutdown-racing-delivery scenarios with the delivery oracle (nil from Publish means delivered); all interleavings (unbounded, state-key pruning). Termination is decided by the deadlock detector, not by a timeout.",
	Assumptions: []string{
		"schedules are explored at the granularity of synchronisation operations under sequential consistency (DESIGN.md 2.1)",
		"subscribers' Send/Flush return (the property's proviso)",
	},
	Scenarios:   Scenarios,
	QuickBudget: 90, ThoroughBudget: 900,
}
