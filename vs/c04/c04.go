// Package c04: resuming with Last-Event-ID yields exactly the missed events, then live ones. DESIGN.md section 4, C04.
package c04

import (
	"context"
	"fmt"
	"strings"
	"time"

	sse "github.com/tmaxmax/go-sse"
	"github.com/tmaxmax/go-sse/vrt"

	"verif/vs/jh"
	"verif/vs/jo"
	"verif/vs/run"
)

type Params struct {
	Valid   bool // ValidReplayer (nothing expires) instead of FiniteReplayer
	Auto    bool
	N       int // capacity of the FiniteReplayer
	H       int // messages published before the subscription
	Present int // index into the history of the presented ID; -1 unset; -2 never issued ("zz"); -3 never issued, numeric, larger than any; -4 the ID to be issued next
	TwoSubs bool
	Slow    bool
	// Clock (ValidReplayer only): TTL 2s; the i-th history publish happens at Clock[i] (tenths of a second), the
	// subscription and the live publishes at Clock[H]. nil: time stands still (nothing expires).
	Clock []int
	AllA  bool // every history message is published to topic a
	// ManualGC (with Clock): GCInterval is 0 (no automatic collection) and the application calls GC() itself
	// after the history, at Clock[H], while the provider is idle.
	ManualGC bool
	// NoData > 0: the history messages k with k % NoData == 1 have no data field (an ID and a comment only)
	NoData int
	// EmptyID > 0 (manual IDs): history message EmptyID-1 carries the set-but-empty ID ""
	EmptyID int
}

func (p Params) Name() string {
	kind := fmt.Sprintf("finite%d", p.N)
	if p.Valid {
		kind = "valid"
	}
	ck := ""
	if p.Clock != nil {
		ck = fmt.Sprintf("-clock%v-allA%v", p.Clock, p.AllA)
		if p.ManualGC {
			ck += "-manualgc"
		}
	}
	if p.NoData > 0 {
		ck += fmt.Sprintf("-nodata%d", p.NoData)
	}
	if p.EmptyID > 0 {
		ck += fmt.Sprintf("-emptyid%d", p.EmptyID)
	}
	return fmt.Sprintf("%s-auto%v-h%d-present%d-two%v-slow%v%s", kind, p.Auto, p.H, p.Present, p.TwoSubs, p.Slow, ck)
}

type world struct {
	JL   *jh.JoeLog
	Subs []*jo.Sub
	Msgs []*jo.Msg
	Shut error
	P    Params
	IDs  []string // IDs of the history in publish order
}

// allA makes every history message go to topic a (set per scenario through Params.AllA; read-only afterwards).
func topicsOfP(p Params, k int) []string {
	if p.AllA {
		return []string{"a"}
	}
	return topicsOf(k)
}

func topicsOf(k int) []string {
	if k%2 == 0 {
		return []string{"a"}
	}
	return []string{"b"}
}

func idOf(p Params, k int) string {
	if p.Auto {
		return fmt.Sprint(k)
	}
	if p.EmptyID > 0 && k == p.EmptyID-1 {
		return ""
	}
	return fmt.Sprintf("e%d", k)
}

func body(p Params) func() {
	return func() {
		w := &world{JL: &jh.JoeLog{}, P: p}
		vrt.SetUser(w)
		var inner sse.Replayer
		var valid *sse.ValidReplayer
		now := 0 // tenths of a second
		if p.Valid {
			ttl := time.Hour
			if p.Clock != nil {
				ttl = 2 * time.Second
			}
			v, err := sse.NewValidReplayer(ttl, p.Auto)
			if err != nil {
				panic(err)
			}
			base := time.Date(2030, 1, 1, 0, 0, 0, 0, time.UTC)
			v.Now = func() time.Time { return base.Add(time.Duration(now) * 100 * time.Millisecond) }
			if p.ManualGC {
				v.GCInterval = 0
			}
			inner, valid = v, v
		} else {
			f, err := sse.NewFiniteReplayer(p.N, p.Auto)
			if err != nil {
				panic(err)
			}
			inner = f
		}
		j := &sse.Joe{Replayer: &jh.Replayer{JL: w.JL, Inner: inner}}
		jh.PreInitFor(j, p.Auto)
		mk := func(tag string, k int) *sse.Message {
			build := jh.Msg
			if p.NoData > 0 && k < p.H && k%p.NoData == 1 {
				build = jh.MsgNoData
			}
			if p.Auto {
				return build(tag, "")
			}
			if id := idOf(p, k); id != "" {
				return build(tag, id)
			}
			m := build(tag, "x")
			m.ID = sse.ID("") // set, but empty
			return m
		}
		// history, sequentially
		for k := 0; k < p.H; k++ {
			if p.Clock != nil {
				now = p.Clock[k]
			}
			r := &jo.Msg{Tag: fmt.Sprintf("h%d", k), Topics: topicsOfP(p, k), Pub: 0, Seq: k}
			w.Msgs = append(w.Msgs, r)
			r.Err = j.Publish(mk(r.Tag, k), append([]string(nil), r.Topics...))
			r.Returned = true
			w.IDs = append(w.IDs, idOf(p, k))
		}
		if p.Clock != nil {
			now = p.Clock[p.H]
		}
		if p.ManualGC {
			// every Publish has returned, so the provider is past Put and nobody else uses the replayer now
			valid.GC()
		}
		nsub := 1
		if p.TwoSubs {
			nsub = 2
		}
		var subs []vrt.Handle
		var ctxs []*vrt.Ctx
		for i := 0; i < nsub; i++ {
			name := fmt.Sprintf("S%d", i+1)
			ctx := vrt.NewCtx(name)
			ctxs = append(ctxs, ctx)
			ret := vrt.NewShared(name+".returned", 0)
			wr := &jh.Writer{Name: fmt.Sprintf("W%d", i+1), Ctx: ctx, JL: w.JL, Returned: ret, Slow: p.Slow}
			rec := &jo.Sub{W: wr, Topics: []string{"a"}, Cancel: true, DoneBefore: map[string]bool{"p1": true, "p2": true, "p3": true}}
			sub := sse.Subscription{Client: wr, Topics: rec.Topics}
			present := p.Present
			if i == 1 && present > 0 {
				present-- // the second subscriber resumes from one event earlier
			}
			switch {
			case present >= 0:
				rec.LastID, rec.HasLastID = idOf(p, present), true
			case present == -2:
				rec.LastID, rec.HasLastID = "zz", true
			case present == -3:
				rec.LastID, rec.HasLastID = "4000000000", true
			case present == -4:
				rec.LastID, rec.HasLastID = idOf(p, p.H), true // the ID that will be issued next
			}
			if rec.HasLastID {
				sub.LastEventID = sse.ID(rec.LastID)
			}
			w.Subs = append(w.Subs, rec)
			subs = append(subs, vrt.GoNamed(name, func() {
				err := j.Subscribe(ctx, sub)
				ret.Poke(1)
				rec.Returned, rec.Err = true, err
			}))
		}
		live := []*jo.Msg{{Tag: "p1", Topics: []string{"a"}, Pub: 1, Seq: 0}, {Tag: "p2", Topics: []string{"b"}, Pub: 1, Seq: 1}, {Tag: "p3", Topics: []string{"b", "a"}, Pub: 1, Seq: 2}}
		w.Msgs = append(w.Msgs, live...)
		pub := vrt.GoNamed("P", func() {
			for k, r := range live {
				r.Err = j.Publish(mk(r.Tag, p.H+k), append([]string(nil), r.Topics...))
				r.Returned = true
			}
		})
		vrt.Join(pub)
		for _, c := range ctxs {
			c.Cancel()
		}
		vrt.Join(subs...)
		w.Shut = j.Shutdown(context.Background())
	}
}

// expectReplay is the reference: a list holding the last N accepted events (all of them for the valid replayer).
func expectReplay(p Params) func(s *jo.Sub, before []jo.PutRec) ([]string, bool) {
	return func(s *jo.Sub, before []jo.PutRec) ([]string, bool) {
		buf := before
		evicted := 0
		if !p.Valid && len(buf) > p.N {
			evicted = len(buf) - p.N
			buf = buf[evicted:]
		}
		if !s.HasLastID {
			return nil, true
		}
		if p.Clock != nil {
			// entries put at Clock[i] expire 2 s later; replay happens at Clock[H] (later puts are at that time too)
			at := func(i int) int {
				if i < p.H {
					return p.Clock[i]
				}
				return p.Clock[p.H]
			}
			nowT := p.Clock[p.H]
			pos := -1
			for i, r := range before {
				if strings.HasSuffix(r.Out, "#"+s.LastID) {
					pos = i
				}
			}
			if pos < 0 {
				if p.Auto {
					return nil, false
				}
				return nil, true
			}
			if at(pos)+20 <= nowT {
				return nil, false // the presented event has expired: only the universal clauses apply
			}
			var want []string
			for i := pos + 1; i < len(before); i++ {
				if at(i)+20 > nowT && has(before[i].Topics, "a") {
					want = append(want, before[i].Out)
				}
			}
			return want, true
		}
		pos := -1
		for i, r := range buf {
			if strings.HasSuffix(r.Out, "#"+s.LastID) {
				pos = i
			}
		}
		if pos < 0 {
			// evicted or never issued. With automatic IDs an evicted (smaller than the oldest buffered) ID is
			// not covered by the property: only the universal clauses apply.
			if p.Auto && evicted > 0 {
				for _, r := range before[:evicted] {
					if strings.HasSuffix(r.Out, "#"+s.LastID) {
						return nil, false
					}
				}
			}
			return nil, true
		}
		var want []string
		for _, r := range buf[pos+1:] {
			for _, t := range r.Topics {
				if t == "a" {
					want = append(want, r.Out)
					break
				}
			}
		}
		return want, true
	}
}

func has(ts []string, t string) bool {
	for _, x := range ts {
		if x == t {
			return true
		}
	}
	return false
}

func check(p Params) func(r *vrt.Result) string {
	return func(r *vrt.Result) string {
		if r.Outcome != vrt.Done {
			return r.Outcome + ": " + r.Msg
		}
		w := r.User.(*world)
		if w.Shut != nil {
			return fmt.Sprintf("Shutdown returned %v", w.Shut)
		}
		return jo.Check(&jo.Spec{JL: w.JL, HasReplayer: true, Subs: w.Subs, Msgs: w.Msgs, Ignore: map[string]bool{"init": true}, ExpectReplay: expectReplay(p)})
	}
}

func summary(r *vrt.Result) string {
	w, _ := r.User.(*world)
	if w == nil {
		return r.Outcome
	}
	return r.Outcome + " " + w.JL.String()
}

func sig(p Params) func(r *vrt.Result, msg string) string {
	return func(r *vrt.Result, msg string) string {
		if strings.Contains(msg, "presented Last-Event-ID") && strings.Contains(msg, ": replayed [") {
			w, _ := r.User.(*world)
			class := "a buffered ID"
			if w != nil {
				for _, s := range w.Subs {
					if !strings.HasPrefix(msg, s.W.Name+" ") {
						continue
					}
					switch {
					case !s.HasLastID:
						class = "no ID"
					case len(w.IDs) > 0 && s.LastID == w.IDs[len(w.IDs)-1]:
						class = "the newest ID (at subscription time or earlier)"
					case s.LastID == "zz" || s.LastID == "4000000000" || s.LastID == idOf(p, p.H):
						class = "a never-issued ID"
					}
				}
			}
			more := "more"
			if strings.Contains(msg, "replayed []") {
				more = "less"
			}
			return fmt.Sprintf("replay differs from the reference when presenting %s (auto=%v): %s than expected", class, p.Auto, more)
		}
		return run.NormSig(r, msg)
	}
}

func Scenarios(tier string) []run.Scenario {
	var out []run.Scenario
	add := func(p Params) {
		out = append(out, run.Scenario{Name: p.Name(), Body: body(p), Check: check(p), Sig: sig(p), Summary: summary,
			Opts: vrt.Options{PreemptBound: -1, FaultBound: -1, OrderBound: -1, Prune: true}})
	}
	type cfg struct {
		valid bool
		n     int
	}
	cfgs := []cfg{{false, 2}, {false, 3}, {true, 0}}
	maxH := 7
	if tier == "thorough" {
		cfgs = []cfg{{false, 2}, {false, 3}, {false, 4}, {true, 0}}
		maxH = 9
	}
	for _, c := range cfgs {
		for _, auto := range []bool{false, true} {
			for h := 0; h <= maxH; h++ {
				if !c.valid && h > 2*c.n+1 {
					continue
				}
				for present := -4; present < h; present++ {
					add(Params{Valid: c.valid, Auto: auto, N: c.n, H: h, Present: present})
					if tier == "thorough" || c.n == 3 || c.valid && h <= 5 {
						add(Params{Valid: c.valid, Auto: auto, N: c.n, H: h, Present: present, TwoSubs: true})
						add(Params{Valid: c.valid, Auto: auto, N: c.n, H: h, Present: present, Slow: true})
					}
				}
			}
		}
	}
	// a history event whose ID is the empty (but set) string; subscribers without a Last-Event-ID must get nothing replayed
	for _, c := range []cfg{{false, 3}, {true, 0}} {
		for h := 2; h <= 3; h++ {
			for e := 1; e <= h; e++ {
				for present := -1; present < h; present++ {
					if present == e-1 {
						continue // presenting the empty ID itself: "" set vs unset is what is being told apart
					}
					add(Params{Valid: c.valid, N: c.n, H: h, Present: present, EmptyID: e, AllA: true})
				}
			}
		}
	}
	// histories in which every second / third message has no data field (checkpoints: ID and comment only)
	for _, c := range []cfg{{false, 3}, {true, 0}} {
		for _, auto := range []bool{false, true} {
			for h := 2; h <= 5; h++ {
				for present := -1; present < h; present++ {
					add(Params{Valid: c.valid, Auto: auto, N: c.n, H: h, Present: present, NoData: 2, AllA: true})
					add(Params{Valid: c.valid, Auto: auto, N: c.n, H: h, Present: present, NoData: 3})
				}
			}
		}
	}
	// ValidReplayer with a moving clock (TTL 2 s, default GCInterval 0.5 s): events expire, a collection is due
	// at the subscription, the buffer shrinks
	clocks := [][]int{
		{0, 0, 0, 0, 0, 15, 15, 21},                 // five expired, two alive, collection due: the ring of 8 shrinks to 4
		{0, 0, 0, 0, 0, 0, 0, 0, 0, 15, 21},         // nine expired (ring of 16), one alive
		{0, 5, 10, 15, 20, 25, 26},                  // staggered: three expired at 26
		{0, 0, 0, 19},                               // nothing expired yet, collection due
		{0, 0, 0, 0, 0, 0, 0, 0, 0, 15, 15, 15, 21}, // nine expired, three alive: the ring of 16 shrinks to 8
		{0, 0, 0, 0, 0, 12, 14, 16, 21},             // five expired, three alive with different expiries
	}
	for _, ck := range clocks {
		h := len(ck) - 1
		for _, auto := range []bool{false, true} {
			for _, allA := range []bool{false, true} {
				for present := -1; present < h; present++ {
					add(Params{Valid: true, Auto: auto, H: h, Present: present, Clock: ck, AllA: allA})
				}
			}
		}
	}
	// the same with manual collection (GCInterval 0, GC() called after the history): bursts that expire leaving
	// 4 / 3 / 8 / 1 events in rings of 16 / 16 / 32 / 8
	burst := func(expired, alive int) []int {
		var ck []int
		for i := 0; i < expired; i++ {
			ck = append(ck, 0)
		}
		for i := 0; i < alive; i++ {
			ck = append(ck, 15)
		}
		return append(ck, 21)
	}
	manual := [][]int{burst(12, 4), burst(10, 3), burst(5, 2), clocks[2], clocks[5]}
	if tier == "thorough" {
		manual = append(manual, burst(24, 8), burst(7, 1), burst(13, 4), burst(11, 4))
	}
	for _, ck := range manual {
		h := len(ck) - 1
		for _, auto := range []bool{false, true} {
			for present := -1; present < h; present++ {
				if present >= 0 && present < h-6 && present%4 != 0 {
					continue // of the long-expired IDs every fourth
				}
				add(Params{Valid: true, Auto: auto, H: h, Present: present, Clock: ck, AllA: true, ManualGC: true})
			}
		}
	}
	return out
}

var Check = &run.Check{
	ID: "C04", Level: "model_checking",
	Rule: "Scenarios: real FiniteReplayer (N=2,3; thorough 2,3,4) / ValidReplayer behind a recording wrapper, manual and automatic IDs, a history of h = 0..2N+1 (valid: 0..7, thorough 9) sequential publishes on alternating topics, then one or two subscribers presenting every ID of the history (oldest, middle, newest, evicted), a never-issued ID (text, large number) or none, racing a publisher of three more messages; histories in which every second / third message has no data field; plus the ValidReplayer on a moving clock (events expire, a collection is due at the subscription, the ring shrinks; also with GCInterval 0 and GC() called by the application after bursts of 7-16 (thorough 32) events of which 1-4 (8) survive); all interleavings (unbounded, state-key pruning). Reference: a list of the last N accepted events.",
	Assumptions: []string{
		"schedules are explored at the granularity of synchronisation operations under sequential consistency (DESIGN.md 2.1)",
		"with automatic IDs, presenting an ID that was issued but already evicted is outside the property: only the universal clauses (order, uniqueness, topic match, boundary) are checked there",
	},
	Scenarios:   Scenarios,
	QuickBudget: 90, ThoroughBudget: 900,
}
