// Package c05: end to end - no event lost, duplicated or reordered across reconnects. DESIGN.md section 4, C05.
//
// Everything is real and instrumented (Server, Session, Joe, replayer, Client, Connection, parser); nothing is
// on a network: the client's transport runs Server.ServeHTTP on a handler thread per attempt and connects the
// handler's ResponseWriter to the response body through a shim-channel pipe that the environment can sever at
// any byte.
package c05

import (
	"context"
	"errors"
	"fmt"
	"io"
	"net/http"
	"net/textproto"

	sse "github.com/tmaxmax/go-sse"
	"github.com/tmaxmax/go-sse/vrt"
)

var errCut = errors.New("connection severed")

type chunk struct {
	data []byte
	err  error
}

// link is one attempt: the server side of a connection.
type link struct {
	n        int
	env      *env
	sctx     *vrt.Ctx   // the server's request context
	ch       chan chunk // response body bytes (buffered shim channel)
	started  chan struct{}
	isStart  bool
	hdr      http.Header
	status   int
	sentHdr  http.Header
	cut      bool
	ended    bool
	written  int // body bytes handed to the pipe
	startErr error
}

// env is the environment of one execution: fault budget and where faults may happen.
type env struct {
	// firstEvent is set by the client's callback when it has dispatched its first event: faults only after that.
	firstEvent *vrt.Shared
	// cuts: abrupt cuts are offered at every Write: "all" = after any byte of the write, "coarse" = before the
	// write and in its middle (every write boundary and the inside of every field name / value), "" = never.
	cuts  string
	links []*link
	log   []string
	// forced first cut (to shard two-cut scenarios over processes): the forceAt-th write after the client's
	// first event is severed at offset variant forceVar; 0: none.
	forceAt, forceVar int
	writeNo           int
	// headCuts: once the forced body cut has happened, the remaining fault is a cut inside the HEAD of a later
	// response (status line or header block): RoundTrip then fails with one of the errors net/http reports for
	// a truncated head, and the handler finds its connection broken from the start.
	headCuts bool
	forced   bool
}

// what net/http's client returns when the connection breaks inside the response head, by where it breaks
var headCutErrors = []error{
	io.ErrUnexpectedEOF,                                                     // on a line boundary of the head, or before its first byte on a reused connection
	errors.New(`malformed HTTP response "HTTP/"`),                           // inside the protocol token of the status line
	textproto.ProtocolError(`malformed MIME header: missing colon: "Cont"`), // inside a header name
	errCut, // connection reset
}

func (l *link) Header() http.Header { return l.hdr }

func (l *link) WriteHeader(code int) {
	if l.status == 0 {
		l.status = code
	}
}

func (l *link) start() {
	if l.isStart {
		return
	}
	l.isStart = true
	if l.status == 0 {
		l.status = 200
	}
	l.sentHdr = l.hdr.Clone()
	vrt.Close(l.started)
}

func (l *link) sever(accepted []byte) {
	if len(accepted) > 0 {
		vrt.Send(l.ch, chunk{data: append([]byte(nil), accepted...)})
	}
	vrt.Send(l.ch, chunk{err: errCut})
	l.cut = true
	l.env.log = append(l.env.log, fmt.Sprintf("attempt %d severed after %d body bytes", l.n, l.written+len(accepted)))
	l.sctx.CancelNow() // net/http cancels the request context when the connection breaks
}

func (l *link) Write(p []byte) (int, error) {
	if l.ended {
		vrt.Fail("the ResponseWriter of attempt %d was written to after ServeHTTP had returned", l.n)
	}
	if l.cut {
		return 0, errCut
	}
	l.start()
	if l.env.cuts != "" && l.env.firstEvent.Peek() == 1 {
		// 0: the write goes through; otherwise the connection breaks after k bytes of this write
		offsets := []int{0}
		if l.env.cuts == "all" {
			for k := 1; k <= len(p); k++ {
				offsets = append(offsets, k)
			}
		} else if len(p) > 1 {
			offsets = append(offsets, len(p)/2)
		}
		l.env.writeNo++
		if l.env.forceAt == l.env.writeNo && l.env.forceVar < len(offsets) {
			k := offsets[l.env.forceVar]
			l.env.forced = true
			l.sever(p[:k])
			l.written += k
			return k, errCut
		}
		if l.env.headCuts {
			// in these scenarios the remaining fault budget is for response heads only
		} else if j := vrt.ChooseFault(len(offsets)+1, 1, "cut inside this write"); j > 0 {
			k := offsets[j-1]
			l.sever(p[:k])
			l.written += k
			return k, errCut
		}
	}
	vrt.Send(l.ch, chunk{data: append([]byte(nil), p...)})
	l.written += len(p)
	return len(p), nil
}

func (l *link) FlushError() error {
	if l.ended {
		vrt.Fail("the ResponseWriter of attempt %d was flushed after ServeHTTP had returned", l.n)
	}
	if l.cut {
		return errCut
	}
	l.start()
	return nil
}

// transport connects the client to the server.
type transport struct {
	env *env
	srv *sse.Server
	// requests seen: Last-Event-Id header of every attempt
	headers  []string
	handlers []vrt.Handle
}

func (t *transport) RoundTrip(req *http.Request) (*http.Response, error) {
	n := len(t.env.links) + 1
	l := &link{n: n, env: t.env, sctx: vrt.NewCtx(fmt.Sprintf("srvreq%d", n)), ch: vrt.MakeChan[chunk](512),
		started: vrt.MakeChan[struct{}](0), hdr: http.Header{}}
	t.env.links = append(t.env.links, l)
	h := "<none>"
	if v, ok := req.Header["Last-Event-Id"]; ok && len(v) > 0 {
		h = v[0]
	}
	t.headers = append(t.headers, h)
	sreq, _ := http.NewRequestWithContext(l.sctx, http.MethodGet, "http://verif.invalid/events", http.NoBody)
	for k, v := range req.Header {
		sreq.Header[k] = append([]string(nil), v...)
	}
	t.handlers = append(t.handlers, vrt.GoNamed(fmt.Sprintf("handler%d", n), func() {
		t.srv.ServeHTTP(l, sreq)
		l.start()
		l.ended = true
		if !l.cut {
			vrt.Close(l.ch) // the handler returned: the body ends cleanly
		}
	}))
	if t.env.headCuts && t.env.forced && t.env.firstEvent.Peek() == 1 {
		if k := vrt.ChooseFault(len(headCutErrors)+1, 1, "cut inside the response head"); k > 0 {
			l.cut = true
			t.env.log = append(t.env.log, fmt.Sprintf("attempt %d severed inside the response head (%v)", n, headCutErrors[k-1]))
			l.sctx.CancelNow()
			return nil, headCutErrors[k-1]
		}
	}
	// wait for the response head or for the client's own cancellation
	cctx := req.Context()
	started := vrt.CaseRecv(l.started)
	gone := vrt.CaseRecv(cctx.Done())
	if vrt.Select(false, started, gone) == 1 {
		l.cut = true
		l.sctx.CancelNow()
		return nil, context.Canceled
	}
	return &http.Response{StatusCode: l.status, Status: http.StatusText(l.status), Proto: "HTTP/1.1", ProtoMajor: 1, ProtoMinor: 1,
		Header: l.sentHdr, Body: &bodyReader{l: l, cctx: cctx}, Request: req}, nil
}

type bodyReader struct {
	l    *link
	cctx context.Context
	rest []byte
	err  error
}

func (b *bodyReader) Read(p []byte) (int, error) {
	if len(b.rest) == 0 {
		if b.err != nil {
			return 0, b.err
		}
		data := vrt.CaseRecv(b.l.ch)
		gone := vrt.CaseRecv(b.cctx.Done())
		if vrt.Select(false, data, gone) == 1 {
			b.err = context.Canceled
			b.Close()
			return 0, b.err
		}
		switch {
		case !data.Ok:
			b.err = io.EOF
			return 0, io.EOF
		case data.Val.err != nil:
			b.err = data.Val.err
			return 0, b.err
		}
		b.rest = data.Val.data
	}
	n := copy(p, b.rest)
	b.rest = b.rest[n:]
	return n, nil
}

// Close: the client drops the connection; the server notices (request context cancelled, writes fail).
func (b *bodyReader) Close() error {
	if !b.l.cut {
		b.l.cut = true
		b.l.sctx.CancelNow()
	}
	return nil
}
