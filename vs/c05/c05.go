package c05

import (
	"context"
	"fmt"
	"net/http"
	"strings"
	"time"

	sse "github.com/tmaxmax/go-sse"
	"github.com/tmaxmax/go-sse/vrt"

	"verif/vs/ch"
	"verif/vs/jh"
	"verif/vs/run"
)

type Params struct {
	Valid  bool   // ValidReplayer with automatic IDs; else FiniteReplayer(8) with manual IDs
	Cuts   string // abrupt cuts (after the client's first event): "all" = after any byte of any write, "coarse" = at every write boundary and in the middle of every write, "" = none
	Killer bool   // a thread ends handlers (cancels the server's request context) once the stream has started
	NMsg   int
	// ForceAt/ForceVar: the first cut is fixed (write ordinal after the client's first event, offset variant);
	// the explorer places the remaining cuts. Used to shard two-cut scenarios.
	ForceAt, ForceVar int
	// Expiry (ValidReplayer): TTL 2 s on the virtual clock; the publisher lets 3 s pass after its fifth event,
	// so the next Put collects the whole buffer (the ring shrinks) while the client is connected.
	Expiry bool
	// Big: the second event carries ~6 KB of data (the client's scanner has to grow and compact its buffer).
	Big bool
	// Ring > 0: capacity of the FiniteReplayer (default 8). ValidManual: the ValidReplayer with publisher-set IDs.
	// With NMsg == Ring (or 4 events in the ValidReplayer's initial ring) the newest event sits in the last slot.
	Ring        int
	ValidManual bool
	// MaxRetries > 0: the client's Backoff.MaxRetries (a budget per streak of failed attempts: every cut here
	// follows a successful connection, so any number of cuts must be survived with MaxRetries 1).
	MaxRetries int
	// ExpiryResume (ValidReplayer, TTL 2 s): five events at t=0, two more at t=1.5 s, then 0.6 s pass: a client that
	// was cut off inside the seventh event comes back when the first five have expired, a collection is due and the
	// ring of 8 is about to shrink, while its resume point (the sixth event) is still alive.
	ExpiryResume bool
	// HeadCuts: after the forced body cut the remaining fault is a cut inside the head of a later response
	HeadCuts bool
	Preempt  int
	Faults   int
}

func (p Params) Name() string {
	extra := ""
	if p.Ring > 0 {
		extra += fmt.Sprintf("-ring%d", p.Ring)
	}
	if p.ValidManual {
		extra += "-manualids"
	}
	if p.MaxRetries > 0 {
		extra += fmt.Sprintf("-maxretries%d", p.MaxRetries)
	}
	if p.HeadCuts {
		extra += "-headcuts"
	}
	if p.ExpiryResume {
		extra += "-expiryresume"
	}
	return fmt.Sprintf("valid%v-cuts%s-killer%v-msgs%d-pb%d-fb%d-force%d.%d-expiry%v-big%v%s", p.Valid, p.Cuts, p.Killer, p.NMsg, p.Preempt, p.Faults, p.ForceAt, p.ForceVar, p.Expiry, p.Big, extra)
}

type published struct {
	ID, Type, Data string
}

type world struct {
	Env     *env
	T       *transport
	Pub     []published
	PubErr  []error
	Got     []sse.Event
	ConnErr error
	Done    bool
	ShutErr error
	Kills   int
}

var bigData = strings.Repeat("0123456789abcdef", 380) // 6080 bytes

func payload(k int, auto bool) (*sse.Message, published) {
	m := &sse.Message{}
	p := published{ID: fmt.Sprint(k + 1)}
	if auto {
		p.ID = fmt.Sprint(k) // the replayer numbers from 0
	} else {
		m.ID = sse.ID(p.ID)
	}
	switch k % 4 {
	case 0:
		m.Type = sse.Type("t1")
		m.AppendData("line1\nid: x")
		p.Type, p.Data = "t1", "line1\nid: x"
	case 1:
		m.AppendData("b")
		p.Data = "b"
	case 2:
		m.AppendData("c\r\nd", "")
		m.AppendComment("note")
		p.Data = "c\nd"
	case 3:
		m.Type = sse.Type("")
		m.AppendData(" lead")
		p.Data = " lead"
	}
	return m, p
}

func body(p Params) func() {
	return func() {
		w := &world{}
		vrt.SetUser(w)
		var inner sse.Replayer
		if p.Valid {
			ttl := time.Hour
			if p.Expiry || p.ExpiryResume {
				ttl = 2 * time.Second
			}
			v, _ := sse.NewValidReplayer(ttl, !p.ValidManual)
			base := time.Date(2030, 1, 1, 0, 0, 0, 0, time.UTC)
			v.Now = func() time.Time { return base.Add(time.Duration(vrt.Now())) }
			inner = v
		} else {
			ring := 8
			if p.Ring > 0 {
				ring = p.Ring
			}
			f, _ := sse.NewFiniteReplayer(ring, false)
			inner = f
		}
		rep := &jh.Replayer{Inner: inner, Reg: vrt.MakeChan[string](64)}
		joe := &sse.Joe{Replayer: rep}
		srv := &sse.Server{Provider: joe}
		w.Env = &env{firstEvent: vrt.NewShared("client.firstEvent", 0), cuts: p.Cuts, forceAt: p.ForceAt, forceVar: p.ForceVar, headCuts: p.HeadCuts}
		w.T = &transport{env: w.Env, srv: srv}
		cctx := vrt.NewCtx("client")
		caughtUp := vrt.MakeChan[struct{}](8)
		cl := sse.Client{HTTPClient: &http.Client{Transport: w.T}, Backoff: sse.Backoff{Jitter: -1, InitialInterval: time.Millisecond, MaxRetries: p.MaxRetries}}
		conn := cl.NewConnection(ch.NewRequest(cctx, http.NoBody))
		lastID := fmt.Sprint(p.NMsg)
		auto := p.Valid && !p.ValidManual
		if auto {
			lastID = fmt.Sprint(p.NMsg - 1)
		}
		gotFifth := vrt.MakeChan[struct{}](8)
		gotSeventh := vrt.MakeChan[struct{}](8)
		conn.SubscribeToAll(func(e sse.Event) {
			w.Got = append(w.Got, e)
			w.Env.firstEvent.Poke(1)
			if (p.Expiry || p.ExpiryResume) && e.LastEventID == "4" {
				vrt.Send(gotFifth, struct{}{})
			}
			if p.ExpiryResume && e.LastEventID == "6" {
				vrt.Send(gotSeventh, struct{}{})
			}
			if e.LastEventID == lastID {
				vrt.Send(caughtUp, struct{}{})
			}
		})
		client := vrt.GoNamed("client", func() {
			w.ConnErr = conn.Connect()
			w.Done = true
		})
		// the first subscription has reached Joe's loop: start publishing
		vrt.Recv(rep.Reg)
		pub := vrt.GoNamed("publisher", func() {
			for k := 0; k < p.NMsg; k++ {
				m, rec := payload(k, auto)
				if p.Big && k == 1 {
					m = &sse.Message{ID: m.ID}
					m.AppendData(bigData)
					rec.Type, rec.Data = "", bigData
				}
				if p.Expiry && k == 5 {
					// The replayer must be able to hold what is published while the client is away (the property's
					// proviso): let time pass only once the client has everything published so far.
					vrt.Recv(gotFifth)
					vrt.Advance(int64(3 * time.Second)) // everything published so far expires
				}
				if p.ExpiryResume && k == 5 {
					vrt.Recv(gotFifth)
					vrt.Advance(int64(1500 * time.Millisecond))
				}
				if p.ExpiryResume && k == 7 {
					vrt.Advance(int64(600 * time.Millisecond)) // the first five expire; a collection is due
					vrt.Recv(gotSeventh)                        // the client - cut off or not - has caught up
				}
				w.Pub = append(w.Pub, rec)
				w.PubErr = append(w.PubErr, srv.Publish(m))
			}
		})
		var killer vrt.Handle
		stop := vrt.NewShared("stop", 0)
		if p.Killer {
			killer = vrt.GoNamed("killer", func() {
				// ends the handler of a live attempt (the server gives up the request) - at most twice
				for i := 0; i < 2; i++ {
					vrt.Yield("killer looks for a started stream")
					if stop.Peek() == 1 || w.Env.firstEvent.Peek() == 0 {
						return
					}
					for _, l := range w.Env.links {
						if l.isStart && !l.cut && !l.ended && !l.sctx.Cancelled() {
							w.Kills++
							w.Env.log = append(w.Env.log, fmt.Sprintf("attempt %d: handler told to end after %d body bytes", l.n, l.written))
							l.sctx.CancelNow()
							break
						}
					}
				}
			})
		}
		vrt.Join(pub)
		vrt.Recv(caughtUp) // the client has dispatched the last published event
		stop.Poke(1)
		cctx.Cancel()
		vrt.Join(client)
		if p.Killer {
			vrt.Join(killer)
		}
		w.ShutErr = srv.Shutdown(context.Background())
		vrt.Join(w.T.handlers...)
	}
}

func check(r *vrt.Result) string {
	if r.Outcome != vrt.Done {
		return r.Outcome + ": " + r.Msg
	}
	w := r.User.(*world)
	desc := func() string {
		var got []string
		for _, e := range w.Got {
			got = append(got, e.LastEventID)
		}
		return fmt.Sprintf("client saw IDs [%s]; requests carried Last-Event-ID %v; %s", strings.Join(got, ","), w.T.headers, strings.Join(w.Env.log, "; "))
	}
	if !w.Done {
		return "Connect did not return: " + desc()
	}
	for i, e := range w.PubErr {
		if e != nil {
			return fmt.Sprintf("Publish #%d returned %v", i+1, e)
		}
	}
	if len(w.Got) == 0 {
		return "the client received nothing: " + desc()
	}
	// from the first received event on: exactly the published sequence
	first := -1
	for i, p := range w.Pub {
		if p.ID == w.Got[0].LastEventID {
			first = i
		}
	}
	if first < 0 {
		return fmt.Sprintf("the first event the client received (%+v) was never published: %s", w.Got[0], desc())
	}
	want := w.Pub[first:]
	for i, e := range w.Got {
		if i >= len(want) {
			return fmt.Sprintf("the client received %d events, only %d were published from its first one on (duplicate or invented event %+v): %s", len(w.Got), len(want), e, desc())
		}
		if e.LastEventID != want[i].ID || e.Type != want[i].Type || e.Data != want[i].Data {
			what := "differs from what was published"
			for _, earlier := range w.Got[:i] {
				if earlier.LastEventID == e.LastEventID {
					what = "is a duplicate"
				}
			}
			if what != "is a duplicate" {
				for j := i + 1; j < len(want); j++ {
					if want[j].ID == e.LastEventID {
						what = "arrives although " + want[i].ID + " was skipped (lost event)"
					}
				}
			}
			return fmt.Sprintf("event %d seen by the client %s: got {id %q type %q data %q}, want {id %q type %q data %q}: %s", i+1, what, e.LastEventID, e.Type, e.Data, want[i].ID, want[i].Type, want[i].Data, desc())
		}
	}
	if len(w.Got) != len(want) {
		return fmt.Sprintf("the client received %d of the %d events published from its first one on: %s", len(w.Got), len(want), desc())
	}
	return ""
}

func summary(r *vrt.Result) string {
	w, _ := r.User.(*world)
	if w == nil {
		return r.Outcome
	}
	return fmt.Sprintf("%s hdr=%v log=%v n=%d", r.Outcome, w.T.headers, w.Env.log, len(w.Got))
}

func sig(r *vrt.Result, msg string) string {
	if i := strings.Index(msg, ": client saw IDs"); i >= 0 {
		msg = msg[:i]
	}
	if i := strings.Index(msg, ": got {id"); i >= 0 {
		msg = msg[:i]
	}
	return run.NormSig(r, msg)
}

func Scenarios(tier string) []run.Scenario {
	var out []run.Scenario
	add := func(p Params) {
		out = append(out, run.Scenario{Name: p.Name(), Body: body(p), Check: check, Sig: sig, Summary: summary,
			Opts: vrt.Options{PreemptBound: p.Preempt, FaultBound: p.Faults, OrderBound: -1, Prune: true, MaxSteps: 20000}})
	}
	for _, valid := range []bool{false, true} {
		add(Params{Valid: valid, Cuts: "all", NMsg: 3, Preempt: 0, Faults: 1})
		// two cuts: the first one enumerated here (one scenario per position), the second one by the explorer
		for at := 1; at <= 26; at++ {
			for v := 0; v <= 1; v++ {
				add(Params{Valid: valid, Cuts: "coarse", NMsg: 2, Preempt: 0, Faults: 1, ForceAt: at, ForceVar: v})
			}
		}
		add(Params{Valid: valid, Killer: true, NMsg: 3, Preempt: 0, Faults: 0})
		add(Params{Valid: valid, Cuts: "coarse", NMsg: 3, Preempt: 0, Faults: 1, Big: true})
		add(Params{Valid: valid, NMsg: 3, Preempt: 1, Faults: 0})
		if tier == "thorough" {
			for at := 1; at <= 40; at++ {
				for v := 0; v <= 1; v++ {
					add(Params{Valid: valid, Cuts: "coarse", NMsg: 3, Preempt: 0, Faults: 1, ForceAt: at, ForceVar: v})
				}
			}
			add(Params{Valid: valid, Cuts: "all", NMsg: 4, Preempt: 0, Faults: 1})
			add(Params{Valid: valid, Cuts: "coarse", NMsg: 3, Preempt: 1, Faults: 1})
			add(Params{Valid: valid, Cuts: "coarse", Killer: true, NMsg: 3, Preempt: 0, Faults: 1})
			add(Params{Valid: valid, Killer: true, NMsg: 4, Preempt: 1, Faults: 0})
		}
	}
	// a retry budget of one: every cut follows a successful connection, so two cuts must be survived
	for _, valid := range []bool{false, true} {
		for at := 1; at <= 26; at++ {
			add(Params{Valid: valid, Cuts: "coarse", NMsg: 2, Preempt: 0, Faults: 1, ForceAt: at, MaxRetries: 1})
		}
		add(Params{Valid: valid, Killer: true, NMsg: 3, Preempt: 0, Faults: 0, MaxRetries: 1})
	}
	// a body cut (every position), then the reconnection's response is cut inside its head (4 kinds of error)
	for _, valid := range []bool{false, true} {
		for at := 1; at <= 26; at++ {
			add(Params{Valid: valid, Cuts: "coarse", NMsg: 2, Preempt: 0, Faults: 1, ForceAt: at, HeadCuts: true})
		}
	}
	// the newest event in the last slot of a full ring when the caught-up client is cut off
	add(Params{Cuts: "all", NMsg: 2, Ring: 2, Preempt: 0, Faults: 1})
	add(Params{Cuts: "all", NMsg: 3, Ring: 3, Preempt: 0, Faults: 1})
	for at := 1; at <= 40; at++ {
		for v := 0; v <= 1; v++ {
			add(Params{Valid: true, ValidManual: true, Cuts: "coarse", NMsg: 4, Preempt: 0, Faults: 0, ForceAt: at, ForceVar: v})
		}
	}
	if tier == "thorough" {
		add(Params{Valid: true, ValidManual: true, Cuts: "all", NMsg: 4, Preempt: 0, Faults: 1})
		add(Params{Valid: true, ValidManual: true, Cuts: "coarse", NMsg: 3, Preempt: 0, Faults: 2})
		add(Params{Cuts: "coarse", NMsg: 4, Ring: 4, Preempt: 0, Faults: 2})
		add(Params{Cuts: "coarse", NMsg: 2, Ring: 2, Preempt: 1, Faults: 1})
	}
	// the ValidReplayer on a moving clock: its buffer grows to 8, everything expires, the next Put collects
	// (one scenario per cut position, the explorer only interleaves)
	add(Params{Valid: true, NMsg: 7, Preempt: 0, Faults: 0, Expiry: true})
	for at := 1; at <= 64; at++ {
		for v := 0; v <= 1; v++ {
			if tier != "thorough" && (v == 1 || at < 26) {
				continue // quick tier: cuts at the write boundaries around and after the expiry
			}
			add(Params{Valid: true, Cuts: "coarse", NMsg: 7, Preempt: 0, Faults: 0, Expiry: true, ForceAt: at, ForceVar: v})
		}
	}
	// resuming at the moment a collection is due and the ring is about to shrink (one scenario per cut position)
	for at := 44; at <= 62; at++ {
		add(Params{Valid: true, Cuts: "coarse", NMsg: 8, Preempt: 0, Faults: 0, ExpiryResume: true, ForceAt: at})
		if tier == "thorough" {
			add(Params{Valid: true, Cuts: "coarse", NMsg: 8, Preempt: 0, Faults: 0, ExpiryResume: true, ForceAt: at, ForceVar: 1})
		}
	}
	return out
}

var Check = &run.Check{
	ID: "C05", Level: "model_checking",
	Rule: "Scenarios: the real Server + Joe + FiniteReplayer(8, manual IDs; also rings of 2/3/4 that the history fills exactly) / ValidReplayer(automatic IDs; also manual IDs with a history that fills its initial ring of 4) and the real Client/Connection in one process under the controlled scheduler; the client's transport runs Server.ServeHTTP on a handler thread per attempt and pipes the ResponseWriter into the response body; a publisher thread publishes 3-4 events (types, multi-line data with 'id: x' look-alikes, comments) once the first subscription has reached Joe. Faults (only after the client's first event): the connection is severed after ANY byte of ANY write of the handler (cutsall, one cut per execution) or at every write boundary / in the middle of every write (cutscoarse, up to two cuts per execution), or a killer thread ends a handler whose stream has started (clean end of body); or, after a body cut, a later response is cut inside its head (the transport fails with the errors net/http reports there: unexpected EOF, malformed HTTP response, a textproto.ProtocolError, connection reset). Interleavings: all thread switches at blocking points (pb0) or with one preemption (pb1), all select tie-breaks, state-key pruning. Also with Backoff.MaxRetries 1 (every cut follows a successful connection, so the budget must never run out). Oracle: from its first event on the client sees exactly the published sequence (order, once each, ID/type/data), no goroutine panics, everything terminates.",
	Assumptions: []string{
		"net/http is replaced by an in-process pipe that reproduces its documented reactions: a broken connection fails the client's body read, fails later server writes and cancels the server's request context; a returning handler ends the body cleanly; the client dropping the response cancels the server's request context",
		"the whole-stack scenario is explored at preemption bound 0-1 and at most 1-2 cuts per execution; the fine-grained interleavings of its parts are covered by C03/C04/C06/C10",
	},
	Scenarios:   Scenarios,
	QuickBudget: 200, ThoroughBudget: 1200,
}
