// Package c12: the retry schedule follows the Backoff configuration. DESIGN.md section 4, C12.
package c12

import (
	"errors"
	"fmt"
	"math"
	"net/http"
	"strings"
	"time"

	sse "github.com/tmaxmax/go-sse"
	"github.com/tmaxmax/go-sse/vrt"

	"verif/sq/ref"
	"verif/vs/ch"
	"verif/vs/run"
)

type Params struct {
	B           sse.Backoff
	MaxAttempts int
	Outcomes    []ch.Outcome
	Tag         string
	// SyncTimers: explore under Go 1.23 timer semantics (Reset/Stop discard an unreceived tick) instead of the older ones
	SyncTimers bool
	// Calls > 1: Connect is called again on the same Connection after it returned for a reason other than the
	// context; every call starts its own schedule (InitialInterval, retry count 0, MaxElapsedTime from its start).
	Calls int
	// Fresh: each further call is made on a new Connection obtained from the same Client (the Client's
	// configuration must read the same to every Connection made from it).
	Fresh bool
}

func (p Params) Name() string {
	return fmt.Sprintf("init%v-mul%v-jit%v-maxint%v-maxel%v-retries%d-att%d", p.B.InitialInterval, p.B.Multiplier, p.B.Jitter, p.B.MaxInterval, p.B.MaxElapsedTime, p.B.MaxRetries, p.MaxAttempts) + p.Tag + map[bool]string{true: "-synctimers", false: ""}[p.SyncTimers] + map[bool]string{true: fmt.Sprintf("-calls%d", p.Calls), false: ""}[p.Calls > 1]
}

type retryRec struct {
	Wait     time.Duration
	At       int64
	Attempts int
	Err      error
}

type world struct {
	T       *ch.Transport
	Retries []retryRec
	Err     error
	Arms    []int64
	Done    bool
	// CallStarts[k]: number of attempts made before the k-th Connect call
	CallStarts []int
}

func body(p Params) func() {
	return func() {
		w := &world{}
		vrt.SetUser(w)
		ctx := vrt.NewCtx("req")
		w.T = &ch.Transport{Ctx: ctx, Next: func(n int) (ch.Outcome, bool) {
			if n >= p.MaxAttempts {
				return ch.Outcome{}, false
			}
			k := vrt.Choose(len(p.Outcomes)+1, "attempt outcome")
			if k == len(p.Outcomes) {
				return ch.Outcome{}, false
			}
			return p.Outcomes[k], true
		}}
		cl := sse.Client{HTTPClient: &http.Client{Transport: w.T}, Backoff: p.B,
			OnRetry: func(err error, d time.Duration) {
				w.Retries = append(w.Retries, retryRec{Wait: d, At: vrt.Now(), Attempts: len(w.T.Attempts), Err: err})
			}}
		conn := cl.NewConnection(ch.NewRequest(ctx, http.NoBody))
		w.CallStarts = append(w.CallStarts, 0)
		w.Err = conn.Connect()
		for k := 1; k < p.Calls && !ctx.Cancelled(); k++ {
			w.CallStarts = append(w.CallStarts, len(w.T.Attempts))
			if p.Fresh {
				conn = cl.NewConnection(ch.NewRequest(ctx, http.NoBody))
			}
			w.Err = conn.Connect()
		}
		w.Arms = vrt.TimerArms()
		w.Done = true
	}
}

func near(a, b time.Duration) bool {
	d := a - b
	if d < 0 {
		d = -d
	}
	return float64(d) <= 2+1e-9*math.Abs(float64(b))
}

func check(p Params) func(r *vrt.Result) string {
	return func(r *vrt.Result) string {
		if r.Outcome != vrt.Done {
			return r.Outcome + ": " + r.Msg
		}
		w := r.User.(*world)
		if !w.Done {
			return "Connect did not return"
		}
		// normalised configuration, as documented
		initial, mul, jit := p.B.InitialInterval, p.B.Multiplier, p.B.Jitter
		if initial <= 0 {
			initial = 500 * time.Millisecond
		}
		if mul < 1 {
			mul = 1.5
		}
		if jit != -1 && (jit <= 0 || jit >= 1) {
			jit = 0.5
		}
		b := initial
		count := 0
		start := int64(0)
		var hist []string
		ri := 0
		desc := func() string {
			return fmt.Sprintf("%+v, attempts [%s]", p.B, strings.Join(hist, ", "))
		}
		call := 0
		for i, a := range w.T.Attempts {
			if call+1 < len(w.CallStarts) && i == w.CallStarts[call+1] {
				// a new Connect call: a schedule of its own
				call++
				count, b, start = 0, initial, a.At
				hist = append(hist, "| Connect again:")
			}
			hist = append(hist, a.Outcome.String())
			if a.Outcome.Kind == "ok" {
				count, b, start = 0, initial, a.At
				for _, rv := range ref.Interpret(a.Outcome.Stream, ref.Mode{RetryDispatches: true}).Retries {
					if rv.Value > 0 {
						b = time.Duration(rv.Value) * time.Millisecond
					} else {
						b = initial
					}
					count, start = 0, a.At
				}
			}
			last := i == len(w.T.Attempts)-1 || (call+1 < len(w.CallStarts) && i+1 == w.CallStarts[call+1])
			// must a retry follow this attempt?
			stop := p.B.MaxRetries < 0 || (p.B.MaxRetries > 0 && count == p.B.MaxRetries)
			maybeStop := false
			base := b
			if !stop {
				count++
				b = time.Duration(float64(b) * mul)
				if p.B.MaxInterval > 0 && b > p.B.MaxInterval {
					b = p.B.MaxInterval
				}
				if p.B.MaxElapsedTime > 0 {
					el := time.Duration(a.At - start)
					lo, hi := base, base
					if jit != -1 {
						lo = base - time.Duration(jit*float64(base))
						hi = base + time.Duration(jit*float64(base)) + 1
					}
					if el+lo > p.B.MaxElapsedTime {
						stop = true
					} else if el+hi > p.B.MaxElapsedTime {
						maybeStop = true
					}
				}
			}
			retried := ri < len(w.Retries) && w.Retries[ri].Attempts == i+1
			if stop && retried {
				return fmt.Sprintf("a retry was started although the limits say stop (MaxRetries %d, consecutive retries so far %d, MaxElapsedTime %v): %s", p.B.MaxRetries, count, p.B.MaxElapsedTime, desc())
			}
			if !retried {
				if !stop && !maybeStop && !(i == len(w.T.Attempts)-1 && w.T.Ended) {
					// the script ended by cancelling inside a later attempt only; here no retry although one is due
					return fmt.Sprintf("no retry after attempt %d although retries remain (%d of MaxRetries %d used): %s; Connect returned %v", i+1, count-1, p.B.MaxRetries, desc(), w.Err)
				}
				if !last {
					return fmt.Sprintf("attempt %d was made without OnRetry being called before it: %s", i+2, desc())
				}
				continue
			}
			rr := w.Retries[ri]
			ri++
			if p.B.MaxElapsedTime > 0 && time.Duration(a.At-start)+rr.Wait > p.B.MaxElapsedTime {
				return fmt.Sprintf("a retry was started with a wait of %v although %v of MaxElapsedTime %v had already passed: %s", rr.Wait, time.Duration(a.At-start), p.B.MaxElapsedTime, desc())
			}
			if jit == -1 {
				if !near(rr.Wait, base) {
					return fmt.Sprintf("retry #%d waits %v, want exactly %v (Jitter -1 = no randomisation): %s", count, rr.Wait, base, desc())
				}
			} else {
				tol := time.Duration(jit*float64(base)) + 2
				if d := rr.Wait - base; d > tol || d < -tol {
					return fmt.Sprintf("retry #%d waits %v, want %v +-%v%%: %s", count, rr.Wait, base, jit*100, desc())
				}
			}
			// the timer is armed with the wait reported to OnRetry (arm 0 is the initial NewTimer(0))
			if ri+call >= len(w.Arms) || time.Duration(w.Arms[ri+call]) != rr.Wait {
				return fmt.Sprintf("OnRetry reported %v but the timer was armed with %v: %s", rr.Wait, w.Arms, desc())
			}
			if !last {
				if next := w.T.Attempts[i+1]; next.At != a.At+int64(rr.Wait) {
					return fmt.Sprintf("attempt %d started %v after attempt %d, OnRetry had announced %v: %s", i+2, time.Duration(next.At-a.At), i+1, rr.Wait, desc())
				}
			}
		}
		if ri != len(w.Retries) {
			return fmt.Sprintf("OnRetry was called %d times for %d retries: %s", len(w.Retries), ri, desc())
		}
		if w.Err == nil {
			return "Connect returned nil: " + desc()
		}
		if w.T.Ended {
			if !errors.Is(w.Err, w.T.Ctx.Err()) && w.T.Ctx.Cancelled() {
				// cancelled by the end of the script: the context's error, unless the limits ended Connect first
				var ce *sse.ConnectionError
				if !errors.As(w.Err, &ce) {
					return fmt.Sprintf("Connect returned %v after the context was cancelled: %s", w.Err, desc())
				}
			}
			return ""
		}
		var ce *sse.ConnectionError
		if !errors.As(w.Err, &ce) {
			return fmt.Sprintf("Connect returned %v (%T), want a *ConnectionError once the retries are exhausted: %s", w.Err, w.Err, desc())
		}
		return ""
	}
}

func summary(r *vrt.Result) string {
	w, _ := r.User.(*world)
	if w == nil {
		return r.Outcome
	}
	var sb strings.Builder
	for _, a := range w.T.Attempts {
		fmt.Fprintf(&sb, "%s@%d ", a.Outcome, a.At)
	}
	for _, rr := range w.Retries {
		fmt.Fprintf(&sb, "w%v ", rr.Wait)
	}
	fmt.Fprintf(&sb, "=> %v", w.Err)
	return sb.String()
}

func sig(r *vrt.Result, msg string) string {
	s := msg
	if i := strings.Index(s, " waits "); i >= 0 && strings.HasPrefix(s, "retry #") {
		if strings.Contains(s, "no randomisation") {
			return "a retry's wait differs from the schedule (Jitter -1: must be exact)"
		}
		return "a retry's wait lies outside the jitter band around the scheduled interval"
	}
	if i := strings.Index(s, ": {"); i >= 0 {
		s = s[:i]
	}
	return run.NormSig(r, s)
}

func Scenarios(tier string) []run.Scenario {
	var out []run.Scenario
	rv := func(v string) ch.Outcome { return ch.Outcome{Kind: "ok", Stream: "retry:" + v + "\n\n", End: "eof"} }
	outcomes := []ch.Outcome{{Kind: "fail"}, {Kind: "ok", Stream: "", End: "eof"}, rv("7"), rv("0"), rv("1000000000000"), rv("+7")}
	attempts := 4
	if tier == "thorough" {
		outcomes = append(outcomes, rv("7x"), rv("-1"), rv(""), ch.Outcome{Kind: "ok", Stream: "retry:3\nretry:9\n\n", End: "err"})
		attempts = 4
	}
	for _, init := range []time.Duration{0, time.Microsecond, time.Second} {
		in := init
		if in == 0 {
			in = 500 * time.Millisecond
		}
		for _, mul := range []float64{0, 1, 2} {
			for _, jit := range []float64{0, -1, 0.25, 0.999} {
				for _, maxInt := range []time.Duration{0, 3 * in} {
					for _, maxEl := range []time.Duration{0, 5 * in} {
						for _, mr := range []int{-1, 0, 1, 3} {
							outcomes := append([]ch.Outcome(nil), outcomes...)
							if mul != 1 {
								// with growth, 1e12 ms overflows int64 nanoseconds after a few doublings: use 1e11 ms there
								outcomes[4] = rv("100000000000")
							}
							p := Params{B: sse.Backoff{InitialInterval: init, Multiplier: mul, Jitter: jit, MaxInterval: maxInt, MaxElapsedTime: maxEl, MaxRetries: mr},
								MaxAttempts: attempts, Outcomes: outcomes}
							draws := 1
							if tier == "thorough" {
								draws = 2
							}
							add := func(p Params) {
								out = append(out, run.Scenario{Name: p.Name(), Body: body(p), Check: check(p), Sig: sig, Summary: summary,
									Opts: vrt.Options{PreemptBound: -1, FaultBound: draws, OrderBound: -1, Prune: false, SyncTimers: p.SyncTimers}})
							}
							add(p)
							if jit == -1 && maxEl == 0 {
								// a valid retry value followed, on the same connection, by retry fields that must be ignored
								q := p
								q.Tag = "-ignored-retry-fields"
								q.MaxAttempts = 3
								q.Outcomes = []ch.Outcome{{Kind: "fail"}, {Kind: "ok", Stream: "retry:7\n\nretry:\n\n", End: "eof"}, {Kind: "ok", Stream: "retry:9\n\nretry\n\nretry: \n\nretry:1x\n\n", End: "err"}}
								add(q)
								// Connect called again on the same Connection: every call has a schedule of its own
								q2 := p
								q2.Calls, q2.MaxAttempts, q2.Tag = 3, 5, "-again"
								q2.Outcomes = outcomes[:3]
								if mr != 0 {
									add(q2)
									q3 := q2
									q3.Fresh, q3.Tag = true, "-again-newconn"
									add(q3)
								}
								// the same histories as the main scenario under the other timer semantics
								r := p
								r.SyncTimers = true
								add(r)
								q.SyncTimers = true
								add(q)
							}
							if (mr == 3 || mr == 0) && (tier == "thorough" || init == time.Microsecond) {
								// longer histories (growth, cap and MaxRetries need several consecutive failures)
								p.MaxAttempts = attempts + 2
								p.Outcomes = outcomes[:3] // {fail, connect+drop, retry:7}
								if tier == "thorough" {
									p.MaxAttempts = attempts + 3
								}
								add(p)
							}
						}
					}
				}
			}
		}
	}
	// Jitter values outside (0, 1) other than -1 mean "the default 0.5": at the boundary, above it and below zero
	for _, jit := range []float64{1, 1.5, -0.5, -2} {
		for _, mr := range []int{0, 3} {
			p := Params{B: sse.Backoff{InitialInterval: time.Microsecond, Jitter: jit, MaxRetries: mr}, MaxAttempts: 4, Outcomes: outcomes[:3], Tag: "-jitter-default"}
			out = append(out, run.Scenario{Name: p.Name(), Body: body(p), Check: check(p), Sig: sig, Summary: summary,
				Opts: vrt.Options{PreemptBound: -1, FaultBound: 2, OrderBound: -1, Prune: false}})
		}
	}
	return out
}

var Check = &run.Check{
	ID: "C12", Level: "model_checking",
	Rule: "Scenarios: every combination of InitialInterval {default, 1us, 1s} x Multiplier {default, 1, 2} x Jitter {default, -1, 0.25, 0.999; also 1, 1.5, -0.5, -2 (all meaning the default) on one configuration} x MaxInterval {0, 3x initial} x MaxElapsedTime {0, 5x initial} x MaxRetries {-1, 0, 1, 3}; inside each scenario the explorer chooses every history of attempt outcomes up to the attempt bound from {transport failure, connect then drop, connect + retry field 7 / 0 / 1e12 (1e11 where the interval grows, to stay inside int64 nanoseconds) / +7 (thorough also 7x, -1, empty, two fields + read error); for Jitter -1 also a valid value followed on the same connection by empty / nameless / blank / malformed retry fields} and the random draws: 0.5 by default, with up to 1 (thorough 2) draws per execution replaced by 0 or 1-2^-53 at every position; the real Connect loop runs on the virtual clock, under the timer semantics of go 1.22 modules (a stale tick survives Reset) and, for the Jitter -1 configurations, also under those of go 1.23 (Reset and Stop discard it) (a wait of 1e12 ms costs nothing). For Jitter -1 also up to three Connect calls on one Connection, and on three Connections made from one Client. Oracle: closed-form schedule (growth, cap, reset on success, server override, limits) compared with the waits reported to OnRetry, the durations the timer was armed with, and the virtual times of the attempts.",
	Assumptions: []string{
		"attempts take no virtual time; MaxElapsedTime is measured from the last successful connection (or the start of Connect), as the implementation documents",
		"a retry value is valid iff it consists of ASCII digits; values up to 1e12 ms are used",
	},
	Scenarios:   Scenarios,
	QuickBudget: 90, ThoroughBudget: 900,
}
