// Package c11: Connect returns only for a reason (context, permanent error, retries exhausted), never nil,
// and reports read errors as themselves. DESIGN.md section 4, C11.
package c11

import (
	"context"
	"errors"
	"fmt"
	"io"
	"net/http"
	"sort"
	"strings"
	"time"

	sse "github.com/tmaxmax/go-sse"
	"github.com/tmaxmax/go-sse/vrt"

	"verif/sq/ref"
	"verif/vs/ch"
	"verif/vs/run"
)

var tokens = []string{"\n", "data:x", ":c", "foo", "id:a", "retry:1", "d"}

// Bodies returns every distinct prefix (cut after any byte) of every string of <= l tokens.
func Bodies(l int) []string {
	set := map[string]bool{"": true}
	prev := []string{""}
	for k := 1; k <= l; k++ {
		var cur []string
		for _, p := range prev {
			for _, t := range tokens {
				s := p + t
				cur = append(cur, s)
				for i := len(p) + 1; i <= len(s); i++ {
					set[s[:i]] = true
				}
			}
		}
		prev = cur
	}
	out := make([]string, 0, len(set))
	for s := range set {
		out = append(out, s)
	}
	sort.Slice(out, func(i, j int) bool {
		if len(out[i]) != len(out[j]) {
			return len(out[i]) < len(out[j])
		}
		return out[i] < out[j]
	})
	return out
}

type Params struct {
	MaxRetries int
	Reject     bool
	Chunk      int
	Bodies     []string
	Lo, Hi     int // slice of Bodies handled by this scenario
	Canceller  bool
	Ends       []string
	// Special selects a non-stream scenario: "reject-hang" (a rejected response whose body never ends),
	// "fail-deadline" / "fail-canceled" (a transport error that looks like a context error while the request
	// context is alive), "toolong-hang" (an oversized event on a body that stays open).
	Special string
	// Mul is Backoff.Multiplier (0: default).
	Mul float64
	// Deadline > 0: the request context expires after that much virtual time (ns) - between, at, or after the
	// retry instants 1 ms, 2.5 ms, ...
	Deadline int64
	// Calls > 1: Connect is called that many times on the same Connection; every call is judged on its own.
	Calls int
	// RejectKind (with Reject): what the validator's error looks like: "" a plain error, "timeout" one that wraps
	// context.DeadlineExceeded (so it has Timeout() == true), "temporary" one with a Temporary() method.
	RejectKind string
	// NoGetBody: the request has a body that cannot be obtained again (only matters when a retry is due).
	NoGetBody bool
}

func (p Params) Name() string {
	extra := ""
	if p.Deadline > 0 {
		extra += fmt.Sprintf("-deadline%dus", p.Deadline/1000)
	}
	if p.Calls > 1 {
		extra += fmt.Sprintf("-calls%d", p.Calls)
	}
	if p.NoGetBody {
		extra += "-nogetbody"
	}
	if p.RejectKind != "" {
		extra += "-reject" + p.RejectKind
	}
	return fmt.Sprintf("retries%d-reject%v-chunk%d-bodies%d..%d-canceller%v%s-mul%v%s", p.MaxRetries, p.Reject, p.Chunk, p.Lo, p.Hi, p.Canceller, p.Special, p.Mul, extra)
}

type world struct {
	T      *ch.Transport
	Err    error
	Done   bool
	Body   string
	End    string
	Events int
	ValErr error
	// per Connect call (Calls > 1): error and number of attempts made during it
	CallErrs     []error
	CallAttempts []int
	// the request context's error at the moment Connect returned (a deadline may still pass afterwards)
	CtxErrAtReturn error
}

var errValidator = errors.New("scripted validator rejection")
var errCause = errors.New("the application is shutting down (cancellation cause)")

type tempErr struct{}

func (tempErr) Error() string   { return "scripted validator rejection that calls itself temporary" }
func (tempErr) Temporary() bool { return true }

var (
	errValidatorTimeout = fmt.Errorf("scripted validator rejection: upstream said: %w", context.DeadlineExceeded)
	errValidatorTemp    = fmt.Errorf("scripted validator rejection: %w", tempErr{})
)

func validatorErr(kind string) error {
	switch kind {
	case "timeout":
		return errValidatorTimeout
	case "temporary":
		return errValidatorTemp
	}
	return errValidator
}

func body(p Params) func() {
	return func() {
		w := &world{}
		vrt.SetUser(w)
		ctx := vrt.NewCtx("req")
		if p.Deadline > 0 {
			ctx.ExpireAfter(p.Deadline)
		}
		first := true
		var chosen ch.Outcome
		w.T = &ch.Transport{Ctx: ctx, Live: p.Canceller || p.Special == "cancel-in-callback", Next: func(n int) (ch.Outcome, bool) {
			if n > (p.MaxRetries+3)*max(p.Calls, 1) && (p.Deadline == 0 || n > 12) {
				return ch.Outcome{}, false // runaway guard: the oracle will complain about the attempt count
			}
			switch p.Special {
			case "reject-hang":
				w.Body, w.End = "(rejected response, body stays open)", "hang"
				return ch.Outcome{Kind: "reject", Hang: true}, true
			case "fail-deadline":
				w.Body, w.End = "(transport fails with a wrapped context.DeadlineExceeded of its own)", "fail"
				return ch.Outcome{Kind: "fail", Err: fmt.Errorf("dial: %w", context.DeadlineExceeded)}, true
			case "fail-canceled":
				w.Body, w.End = "(transport fails with a context.Canceled of its own)", "fail"
				return ch.Outcome{Kind: "fail", Err: fmt.Errorf("proxy: %w", context.Canceled)}, true
			case "fail-plain":
				w.Body, w.End = "(every attempt is a transport failure)", "fail"
				return ch.Outcome{Kind: "fail"}, true
			case "cancel-in-callback":
				// three complete events in one chunk; the first callback cancels the request context
				w.Body, w.End = "data:1\n\ndata:2\n\ndata:3\n\n", "eof"
				return ch.Outcome{Kind: "ok", Stream: w.Body, End: "eof"}, true
			case "toolong-hang":
				w.Body, w.End = "(an event larger than the buffer limit, body stays open)", "toolong"
				return ch.Outcome{Kind: "ok", Stream: "data: " + strings.Repeat("y", 100), Hang: true}, true
			}
			if first {
				first = false
				bi := p.Lo + vrt.Choose(p.Hi-p.Lo, "body")
				ei := vrt.Choose(len(p.Ends), "ending")
				chosen = ch.Outcome{Kind: "ok", Stream: p.Bodies[bi], End: p.Ends[ei], Chunk: p.Chunk}
				w.Body, w.End = chosen.Stream, chosen.End
			}
			return chosen, true
		}}
		cl := sse.Client{HTTPClient: &http.Client{Transport: w.T}, Backoff: sse.Backoff{MaxRetries: p.MaxRetries, Jitter: -1, InitialInterval: time.Millisecond, Multiplier: p.Mul},
			ResponseValidator: func(*http.Response) error {
				if p.Reject {
					return validatorErr(p.RejectKind)
				}
				return nil
			}}
		var reqBody io.Reader = http.NoBody
		if p.NoGetBody {
			reqBody = struct{ io.Reader }{strings.NewReader("a body without GetBody")}
		}
		conn := cl.NewConnection(ch.NewRequest(ctx, reqBody))
		if p.Special == "toolong-hang" {
			conn.Buffer(nil, 32)
		}
		conn.SubscribeToAll(func(sse.Event) {
			w.Events++
			if p.Special == "cancel-in-callback" && w.Events == 1 {
				ctx.CancelNow()
			}
		})
		var canc vrt.Handle
		if p.Canceller {
			// cancelled WITH a cause: Connect must still return the context's error, not the cause
			canc = vrt.GoNamed("canceller", func() { ctx.CancelCause(errCause) })
		}
		w.Err = conn.Connect()
		w.CtxErrAtReturn = ctx.PeekErr()
		w.CallErrs, w.CallAttempts = append(w.CallErrs, w.Err), append(w.CallAttempts, len(w.T.Attempts))
		for k := 1; k < p.Calls; k++ {
			before := len(w.T.Attempts)
			w.Err = conn.Connect()
			w.CallErrs, w.CallAttempts = append(w.CallErrs, w.Err), append(w.CallAttempts, len(w.T.Attempts)-before)
		}
		w.Done = true
		vrt.Join(canc)
	}
}

func midLine(s string) bool { return s != "" && !strings.HasSuffix(s, "\n") }

func check(p Params) func(r *vrt.Result) string {
	return func(r *vrt.Result) string {
		if r.Outcome != vrt.Done {
			return r.Outcome + ": " + r.Msg
		}
		w := r.User.(*world)
		if !w.Done {
			return "Connect did not return"
		}
		desc := fmt.Sprintf("body %q ending %s (chunk %d, MaxRetries %d, validator rejects %v), %d attempts", w.Body, w.End, p.Chunk, p.MaxRetries, p.Reject, len(w.T.Attempts))
		if w.Err == nil {
			return "Connect returned nil: " + desc
		}
		if cerr := w.CtxErrAtReturn; cerr != nil && p.Deadline > 0 {
			// The deadline may pass while the last permitted attempt is failing for a reason of its own: then the
			// retry budget is exhausted and the context is done at the same time, and either report is right.
			budget := 1 + max(p.MaxRetries, 0)
			var ce *sse.ConnectionError
			exhausted := p.Special == "fail-plain" && p.MaxRetries != 0 && len(w.T.Attempts) == budget && errors.As(w.Err, &ce)
			if !errors.Is(w.Err, cerr) && !exhausted {
				return fmt.Sprintf("the request context's deadline passed but Connect returned %v instead of the context's error: %s", w.Err, desc)
			}
			return ""
		}
		// a connection that was established and then ended resets the retry count: with MaxRetries > 0 such
		// connections are retried for as long as the script lasts (the harness ends it by cancelling)
		endless := p.MaxRetries > 0 && !p.Reject && !p.Canceller && w.End != "cancel" && (p.Special == "" || p.Special == "toolong-hang")
		if endless {
			if !w.T.Ended {
				return fmt.Sprintf("Connect gave up after %d attempts with %v although every attempt connected successfully (a successful connection resets the retry count): %s", len(w.T.Attempts), w.Err, desc)
			}
			if !errors.Is(w.Err, context.Canceled) {
				return fmt.Sprintf("the request context was cancelled but Connect returned %v: %s", w.Err, desc)
			}
			return ""
		}
		if p.Calls > 1 {
			// every call on its own: the retry budget and the schedule start afresh
			want := 1
			if p.MaxRetries > 0 {
				want = 1 + p.MaxRetries
			}
			for k, e := range w.CallErrs {
				var ce *sse.ConnectionError
				if e == nil || !errors.As(e, &ce) {
					return fmt.Sprintf("Connect call #%d on the same Connection returned %v, want a *ConnectionError: %s", k+1, e, desc)
				}
				if w.CallAttempts[k] != want {
					return fmt.Sprintf("Connect call #%d on the same Connection made %d attempts, want %d (every call retries according to the backoff policy): attempts per call %v: %s", k+1, w.CallAttempts[k], want, w.CallAttempts, desc)
				}
			}
			return ""
		}
		if w.T.Ctx.Cancelled() && (p.Deadline == 0 || w.CtxErrAtReturn != nil) {
			if !errors.Is(w.Err, context.Canceled) || errors.Is(w.Err, errCause) {
				what := "was cancelled"
				if midLine(w.Body) {
					what = "was cancelled while a line was only partially received"
				}
				return fmt.Sprintf("the request context %s but Connect returned %v instead of the context's error: %s", what, w.Err, desc)
			}
			return ""
		}
		var ce *sse.ConnectionError
		if !errors.As(w.Err, &ce) {
			return fmt.Sprintf("Connect returned %v (%T), want a *ConnectionError: %s", w.Err, w.Err, desc)
		}
		if p.Reject {
			if a := w.T.Attempts; len(a) > 0 && a[0].Body != nil && !a[0].Body.Closed {
				return "the rejected response's body was not closed: " + desc
			}
			if len(w.T.Attempts) != 1 || !errors.Is(w.Err, validatorErr(p.RejectKind)) {
				return fmt.Sprintf("the validator rejected the response but Connect made %d attempts and returned %v: %s", len(w.T.Attempts), w.Err, desc)
			}
			return ""
		}
		wantAttempts := 1
		if p.MaxRetries > 0 {
			wantAttempts = 1 + p.MaxRetries
		}
		if p.NoGetBody && p.MaxRetries < 0 && errors.Is(w.Err, sse.ErrNoGetBody) {
			return fmt.Sprintf("no retry was due, yet Connect reports ErrNoGetBody instead of the last attempt's error: %s", desc)
		}
		if p.Special == "fail-plain" && !errors.Is(w.Err, ch.ErrTransport) {
			return fmt.Sprintf("every attempt failed in the transport but Connect reports %v: %s", ce.Err, desc)
		}
		if p.Special == "fail-deadline" || p.Special == "fail-canceled" || p.Special == "fail-plain" || p.Special == "toolong-hang" {
			if len(w.T.Attempts) != wantAttempts {
				return fmt.Sprintf("%d attempts were made, want %d: the request context is alive, so the failure must be retried like any other: %s", len(w.T.Attempts), wantAttempts, desc)
			}
			return ""
		}
		if len(w.T.Attempts) != wantAttempts {
			return fmt.Sprintf("%d attempts were made, want %d (the connection ended and must be retried MaxRetries times): %s", len(w.T.Attempts), wantAttempts, desc)
		}
		switch {
		case w.End == "errwrap":
			if !errors.Is(w.Err, ch.ErrReadWrapsEOF) || errors.Is(w.Err, sse.ErrUnexpectedEOF) {
				return fmt.Sprintf("the body failed with a read error that wraps io.EOF but Connect reports %v: %s", ce.Err, desc)
			}
			// nothing that was pending when the read failed may have been dispatched
			if n := len(ref.Interpret(w.Body, ref.Mode{RetryDispatches: true, NoFlushAtEnd: true}).Events) * len(w.T.Attempts); w.Events != n {
				return fmt.Sprintf("the body failed with a read error that wraps io.EOF: %d events were dispatched over %d attempts, want %d (a pending event is not dispatched at a read error): %s", w.Events, len(w.T.Attempts), n, desc)
			}
		case w.End == "err":
			if !errors.Is(w.Err, ch.ErrRead) {
				where := "on a line boundary"
				if midLine(w.Body) {
					where = "inside a line"
				}
				return fmt.Sprintf("the body failed with a read error %s but Connect reports %v: %s", where, ce.Err, desc)
			}
		case midLine(w.Body):
			if !errors.Is(w.Err, sse.ErrUnexpectedEOF) {
				return fmt.Sprintf("the stream ended cleanly inside a line but Connect reports %v instead of ErrUnexpectedEOF: %s", ce.Err, desc)
			}
		default:
			if errors.Is(w.Err, sse.ErrUnexpectedEOF) {
				return fmt.Sprintf("the stream ended cleanly on a line boundary but Connect reports ErrUnexpectedEOF: %s", desc)
			}
			if !errors.Is(w.Err, io.EOF) {
				return fmt.Sprintf("the stream ended cleanly on a line boundary but Connect reports %v instead of io.EOF: %s", ce.Err, desc)
			}
		}
		return ""
	}
}

func summary(r *vrt.Result) string {
	w, _ := r.User.(*world)
	if w == nil {
		return r.Outcome
	}
	return fmt.Sprintf("%q %s att=%d ev=%d err=%v cancelled=%v", w.Body, w.End, len(w.T.Attempts), w.Events, w.Err, w.T.Ctx.Cancelled())
}

func sig(r *vrt.Result, msg string) string {
	if i := strings.Index(msg, ": body "); i >= 0 {
		msg = msg[:i]
	}
	for _, cut := range []string{" but Connect reports ", " but Connect returned "} {
		if i := strings.Index(msg, cut); i >= 0 {
			rest := msg[i+len(cut):]
			cls := "another error"
			switch {
			case strings.HasPrefix(rest, "go-sse: unexpected end of input"), strings.Contains(rest, "unexpected end of input"):
				cls = "ErrUnexpectedEOF"
			case strings.HasPrefix(rest, "<nil>"):
				cls = "nil"
			case strings.HasPrefix(rest, "EOF"):
				cls = "io.EOF"
			}
			msg = msg[:i] + cut + cls
		}
	}
	return run.NormSig(r, msg)
}

// readPart checks sse.Read directly (no scheduler needed): the same bodies and endings.
func readCheck(bodies []string) string {
	for _, b := range bodies {
		for _, end := range []string{"eof", "err", "errwrap"} {
			for _, chunk := range []int{0, 1} {
				bd := &ch.Body{O: ch.Outcome{Kind: "ok", Stream: b, End: end, Chunk: chunk}}
				var got error
				n := 0
				sse.Read(bd, nil)(func(_ sse.Event, err error) bool {
					if err != nil {
						got = err
						n++
					}
					return true
				})
				desc := fmt.Sprintf("sse.Read, body %q ending %s (chunk %d)", b, end, chunk)
				switch {
				case n > 1:
					return "more than one error yielded: " + desc
				case end == "err" && got != ch.ErrRead:
					return fmt.Sprintf("the reader failed with a read error but Read yields %v: %s", got, desc)
				case end == "errwrap" && !errors.Is(got, ch.ErrReadWrapsEOF):
					return fmt.Sprintf("the reader failed with a read error that wraps io.EOF but Read yields %v: %s", got, desc)
				case end == "eof" && midLine(b) && got != sse.ErrUnexpectedEOF:
					return fmt.Sprintf("the stream ended cleanly inside a line but Read yields %v instead of ErrUnexpectedEOF: %s", got, desc)
				case end == "eof" && !midLine(b) && got != nil:
					return fmt.Sprintf("the stream ended cleanly on a line boundary but Read yields %v: %s", got, desc)
				}
			}
		}
	}
	return ""
}

func Scenarios(tier string) []run.Scenario {
	l := 4
	if tier == "thorough" {
		l = 6
	}
	bodies := Bodies(l)
	var out []run.Scenario
	add := func(p Params) {
		out = append(out, run.Scenario{Name: p.Name(), Body: body(p), Check: check(p), Sig: sig, Summary: summary,
			Opts: vrt.Options{PreemptBound: -1, FaultBound: -1, OrderBound: -1, Prune: false}})
	}
	step := 64
	for _, mr := range []int{-1, 1, 2} {
		for _, chunk := range []int{0, 1} {
			for lo := 0; lo < len(bodies); lo += step {
				hi := lo + step
				if hi > len(bodies) {
					hi = len(bodies)
				}
				add(Params{MaxRetries: mr, Chunk: chunk, Bodies: bodies, Lo: lo, Hi: hi, Ends: []string{"eof", "err", "cancel", "errwrap"}})
			}
		}
	}
	add(Params{MaxRetries: 2, Reject: true, Bodies: bodies, Lo: 0, Hi: 40, Ends: []string{"eof", "err"}})
	add(Params{MaxRetries: -1, Reject: true, Bodies: bodies, Lo: 0, Hi: 40, Ends: []string{"eof", "err"}})
	for _, kind := range []string{"timeout", "temporary"} {
		for _, mr := range []int{-1, 0, 2} {
			add(Params{MaxRetries: mr, Reject: true, RejectKind: kind, Bodies: bodies, Lo: 0, Hi: 8, Ends: []string{"eof"}})
		}
	}
	// a second thread cancels at any moment: before the attempt, between any two reads, while Connect waits for its retry timer
	small := Bodies(2)
	for lo := 0; lo < len(small); lo += 16 {
		hi := lo + 16
		if hi > len(small) {
			hi = len(small)
		}
		add(Params{MaxRetries: 1, Chunk: 1, Bodies: small, Lo: lo, Hi: hi, Canceller: true, Ends: []string{"eof", "err"}})
	}
	for _, mr := range []int{-1, 1, 2} {
		for _, mul := range []float64{0, 1} {
			add(Params{MaxRetries: mr, Reject: true, Special: "reject-hang", Mul: mul})
			add(Params{MaxRetries: mr, Special: "fail-deadline", Mul: mul})
			add(Params{MaxRetries: mr, Special: "fail-canceled", Mul: mul})
			add(Params{MaxRetries: mr, Special: "fail-plain", Mul: mul})
			add(Params{MaxRetries: mr, Special: "toolong-hang", Mul: mul})
		}
	}
	// a request context with a deadline between, at and after the retry instants (1 ms, 2.5 ms, 4.75 ms)
	for _, mr := range []int{0, 1, 2, 3} {
		for _, dl := range []int64{500, 1000, 2000, 2500, 3000, 6000, 50000} {
			for _, sp := range []string{"fail-plain", "toolong-hang"} {
				if sp == "toolong-hang" && dl > 6000 {
					continue // every attempt connects, so the retry count starts over each time: bounded only by the deadline
				}
				add(Params{MaxRetries: mr, Special: sp, Deadline: dl * 1000})
			}
		}
	}
	// a request body that cannot be obtained again while no retry is due: the last attempt's error, not ErrNoGetBody
	add(Params{MaxRetries: -1, Special: "fail-plain", NoGetBody: true})
	add(Params{MaxRetries: -1, Chunk: 0, Bodies: bodies, Lo: 0, Hi: 64, Ends: []string{"eof", "err"}, NoGetBody: true})
	// a callback cancels the request context while further complete events are already buffered
	for _, mr := range []int{-1, 1, 0} {
		add(Params{MaxRetries: mr, Special: "cancel-in-callback"})
	}
	// Connect called again and again on one Connection
	for _, mr := range []int{-1, 1, 2} {
		for _, mul := range []float64{0, 1} {
			add(Params{MaxRetries: mr, Special: "fail-plain", Mul: mul, Calls: 3})
		}
	}
	// a constant interval (Multiplier 1): successful connections still reset the retry count
	for _, mr := range []int{1, 2} {
		add(Params{MaxRetries: mr, Chunk: 0, Bodies: bodies, Lo: 0, Hi: 64, Ends: []string{"eof", "err"}, Mul: 1})
	}
	// sse.Read, same bodies, as one scenario without scheduling
	out = append(out, run.Scenario{Name: "sse.Read-direct", Body: func() { vrt.SetUser(readCheck(bodies)) },
		Check: func(r *vrt.Result) string {
			if s, _ := r.User.(string); s != "" {
				return s
			}
			return ""
		}, Sig: sig, Opts: vrt.Options{PreemptBound: -1, FaultBound: -1, OrderBound: -1}})
	return out
}

var Check = &run.Check{
	ID: "C11", Level: "model_checking",
	Rule: "Scenarios: the real Connect loop on the virtual clock; the response body is every distinct prefix (cut after any byte) of every string of <= 4 (thorough 5) tokens over {LF, data:x, :c, foo, id:a, retry:1, d}, ending with a clean EOF, a read error (plain, or wrapping io.EOF), or a cancellation of the request context at that read; delivered whole or byte at a time; MaxRetries -1 / 1 / 2; validator accepting or rejecting (with a plain error, one that wraps context.DeadlineExceeded, one that has a Temporary method); plus a second thread that cancels at every possible moment (before the attempt, between any two reads, while Connect waits for its retry timer - all interleavings), plus request contexts whose deadline falls between, at or after the retry instants; plus three Connect calls on one Connection (each must retry afresh); a request body without GetBody when no retry is due; a callback that cancels the request context while complete events are still buffered; plus the same bodies through sse.Read. Body and ending are explorer choices inside each scenario.",
	Assumptions: []string{
		"a cancelled request makes the response body fail with the context's error (net/http's documented behaviour), reproduced by the harness body",
	},
	Scenarios:   Scenarios,
	QuickBudget: 90, ThoroughBudget: 900,
}
