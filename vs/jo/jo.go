// Package jo is the delivery oracle shared by the Joe scenarios (C03, C04, C17). It reconstructs Joe's
// serialisation order from the JoeLog (everything Joe's goroutine did to the harness replayer and writers)
// and checks exactly-once / in-order / matching-only delivery, Send-then-Flush, the replay/live boundary,
// failure isolation and the return values of Publish and Subscribe.
package jo

import (
	"fmt"
	"strings"

	sse "github.com/tmaxmax/go-sse"

	"verif/vs/jh"
)

type Sub struct {
	W      *jh.Writer
	Topics []string
	// LastID presented ("" with HasLastID=false: none).
	LastID    string
	HasLastID bool

	Returned bool
	Err      error
	// Cancel: a cancellation of this subscriber was requested by the scenario; DoneBefore lists the tags of
	// the messages whose Publish had already returned when it was requested (recorded by the cancelling thread).
	Cancel     bool
	DoneBefore map[string]bool
}

type Msg struct {
	Tag      string
	Topics   []string
	Pub, Seq int // publisher and position in its program
	Returned bool
	Err      error
}

// PutRec is a message accepted by the replayer, in Put order.
type PutRec struct {
	Tag    string // harness tag
	Out    string // tag with the ID it carries after Put ("m1#0")
	Topics []string
}

type Spec struct {
	JL *jh.JoeLog
	// HasReplayer: a recording replayer is configured, so every message has a Put entry until it panics.
	HasReplayer bool
	Subs        []*Sub
	Msgs        []*Msg
	// ConcurrentShutdown: a Shutdown may have been requested while publishers/subscribers were running;
	// DoneBeforeShutdown lists what had been published when it was requested (nil map + true: nothing is owed).
	ConcurrentShutdown bool
	DoneBeforeShutdown map[string]bool
	// ExpectReplay returns what the replayer must send to sub given the successful puts before its
	// registration; ok=false: only the universal clauses are checked for the replayed part.
	ExpectReplay func(sub *Sub, before []PutRec) (want []string, ok bool)
	// Ignore lists message tags that are not part of the scenario proper (the pre-initialisation message).
	Ignore map[string]bool
	// Repeats lists the tags of message VALUES that one publisher publishes several times (the same
	// *Message). Their publications are told apart by Joe's own serialisation: the n-th Put of tag t and
	// every Send of t until its next Put are relabelled t@n, and the scenario's Msgs carry those labels.
	// A Send of t that comes too late or too often therefore shows as a duplicate of the latest publication.
	Repeats map[string]bool
}

func relabel(in []jh.Ev, rep map[string]bool) []jh.Ev {
	out := make([]jh.Ev, len(in))
	count := map[string]int{}
	lab := func(t string) string {
		b := base(t)
		if !rep[b] {
			return t
		}
		return fmt.Sprintf("%s@%d%s", b, count[b], t[len(b):])
	}
	for i, e := range in {
		switch e.Kind {
		case "put":
			if b := base(e.Msg); rep[b] {
				count[b]++
			}
			e.Msg = lab(e.Msg)
			if e.Out != "" {
				e.Out = lab(e.Out)
			}
		case "send":
			e.Msg = lab(e.Msg)
		}
		out[i] = e
	}
	return out
}

func base(t string) string {
	if i := strings.IndexByte(t, '#'); i >= 0 {
		return t[:i]
	}
	return t
}

func intersect(a, b []string) bool {
	for _, x := range a {
		for _, y := range b {
			if x == y {
				return true
			}
		}
	}
	return false
}

type subState struct {
	s          *Sub
	regKnown   bool
	registered bool
	reg        int // number of messages serialised before the registration
	regPuts    int // number of successful puts before the registration
	live       []string
	liveIdx    []int
	replayed   []string
	failedAt   int // message index at whose fan-out the subscriber failed; -1: never
	dirty      bool
	inReplay   bool
	complete   map[string]bool // messages sent and flushed
	pending    string
}

// Check returns "" or the first violation.
func Check(sp *Spec) string {
	msgs := map[string]*Msg{}
	for _, m := range sp.Msgs {
		msgs[m.Tag] = m
	}
	subs := map[string]*subState{}
	var order []*subState
	for _, s := range sp.Subs {
		st := &subState{s: s, failedAt: -1, complete: map[string]bool{}}
		subs[s.W.Name] = st
		order = append(order, st)
	}
	msgIdx := map[string]int{}
	outTag := map[string]string{}
	putRes := map[string]string{}
	var puts []PutRec
	nmsg := 0
	replayerDead := false
	cur := "" // message whose fan-out is in progress
	boundary := func(at string) string {
		for _, st := range order {
			if st.dirty {
				return fmt.Sprintf("%s: Send of %s was not followed by a Flush before Joe moved on (%s)", st.s.W.Name, st.pending, at)
			}
		}
		return ""
	}
	events := sp.JL.E
	if len(sp.Repeats) > 0 {
		events = relabel(events, sp.Repeats)
	}
	for _, e := range events {
		switch e.Kind {
		case "put":
			e.Msg = base(e.Msg)
			if sp.Ignore[e.Msg] {
				cur = e.Msg
				continue
			}
			if replayerDead {
				return "the replayer's Put was called after it had panicked"
			}
			if _, dup := msgIdx[e.Msg]; dup {
				return "message " + e.Msg + " reached the replayer twice"
			}
			msgIdx[e.Msg] = nmsg
			nmsg++
			putRes[e.Msg] = e.Res
			cur = e.Msg
			if e.Res == "ok" {
				outTag[e.Msg] = e.Out
				m := msgs[e.Msg]
				var tp []string
				if m != nil {
					tp = m.Topics
				}
				puts = append(puts, PutRec{Tag: e.Msg, Out: e.Out, Topics: tp})
			}
			if e.Res == "panic" {
				replayerDead = true
			}
		case "replay":
			cur = ""
			st := subs[e.Sub]
			if st == nil {
				continue
			}
			if replayerDead {
				return "the replayer's Replay was called after it had panicked"
			}
			if st.regKnown {
				return e.Sub + ": Replay called twice for one subscription"
			}
			st.regKnown = true
			st.reg = nmsg
			st.regPuts = len(puts)
			st.registered = e.Res != "err"
			st.inReplay = e.Res == "ok"
			if e.Res == "panic" {
				replayerDead = true
			}
		case "replay-end":
			if st := subs[e.Sub]; st != nil {
				st.inReplay = false
				if e.Res == "err" {
					st.registered = false
					st.dirty = false // a failed replay owes no Flush
				}
				if st.dirty {
					return fmt.Sprintf("%s: the replay sent %s but did not flush", e.Sub, st.pending)
				}
			}
		case "send":
			st := subs[e.Sub]
			if st == nil {
				continue
			}
			b := base(e.Msg)
			if st.failedAt >= 0 {
				return fmt.Sprintf("%s: called again after one of its calls failed", e.Sub)
			}
			if st.inReplay {
				if e.Res == "ok" {
					st.replayed = append(st.replayed, e.Msg)
					st.dirty, st.pending = true, e.Msg
				} else {
					st.failedAt = nmsg
				}
				continue
			}
			// live delivery
			if sp.Ignore[b] {
				return fmt.Sprintf("%s received %s, which was published to a topic nobody subscribed to", e.Sub, b)
			}
			if _, known := msgIdx[b]; !known {
				if sp.HasReplayer && !replayerDead {
					return fmt.Sprintf("%s received %s, which never went through the replayer's Put", e.Sub, b)
				}
				// no replayer witness (dead or absent): order messages by first appearance
				msgIdx[b] = nmsg
				nmsg++
				cur = b
			}
			cur = b
			if st.dirty {
				return fmt.Sprintf("%s: Send of %s was not followed by a Flush before the next message (%s) was sent to it", e.Sub, st.pending, b)
			}
			m := msgs[b]
			if m == nil {
				return fmt.Sprintf("%s received unknown message %s", e.Sub, e.Msg)
			}
			if !intersect(m.Topics, st.s.Topics) {
				return fmt.Sprintf("%s (topics %v) received %s published to %v", e.Sub, st.s.Topics, b, m.Topics)
			}
			if st.regKnown && !st.registered {
				return fmt.Sprintf("%s received %s although its subscription was refused", e.Sub, b)
			}
			if st.regKnown && msgIdx[b] < st.reg {
				return fmt.Sprintf("%s received %s live although it was published before the subscriber was registered", e.Sub, b)
			}
			for _, t := range st.live {
				if base(t) == b {
					return fmt.Sprintf("%s received %s twice", e.Sub, b)
				}
			}
			for _, t := range st.replayed {
				if base(t) == b {
					return fmt.Sprintf("%s received %s by replay and again live", e.Sub, b)
				}
			}
			if n := len(st.liveIdx); n > 0 && st.liveIdx[n-1] > msgIdx[b] {
				return fmt.Sprintf("%s received %s after a message that Joe serialised later", e.Sub, b)
			}
			if want, ok := outTag[b]; ok && want != "" && e.Msg != want {
				return fmt.Sprintf("%s received %s live, but the replayer's Put returned it as %s (same event, different ID)", e.Sub, e.Msg, want)
			}
			if e.Res == "ok" {
				st.live = append(st.live, e.Msg)
				st.liveIdx = append(st.liveIdx, msgIdx[b])
				st.dirty, st.pending = true, e.Msg
			} else {
				st.failedAt = msgIdx[b]
			}
		case "flush":
			st := subs[e.Sub]
			if st == nil {
				continue
			}
			if st.failedAt >= 0 {
				return fmt.Sprintf("%s: called again after one of its calls failed", e.Sub)
			}
			if e.Res == "ok" {
				if st.dirty {
					st.complete[base(st.pending)] = true
					for _, t := range st.replayed {
						st.complete[base(t)] = true
					}
				}
				st.dirty = false
			} else {
				st.dirty = false
				if idx, ok := msgIdx[cur]; ok && cur != "" {
					st.failedAt = idx
				} else {
					st.failedAt = nmsg
				}
			}
		}
	}
	if v := boundary("end of run"); v != "" {
		return v
	}

	// per-publisher program order
	lastOf := map[int]int{}
	lastSeq := map[int]int{}
	for _, m := range sp.Msgs {
		idx, ok := msgIdx[m.Tag]
		if !ok {
			continue
		}
		if s, seen := lastSeq[m.Pub]; seen && s < m.Seq && lastOf[m.Pub] > idx {
			return fmt.Sprintf("publisher %d: %s was serialised before an earlier message of the same publisher", m.Pub, m.Tag)
		}
		lastOf[m.Pub], lastSeq[m.Pub] = idx, m.Seq
	}

	// Publish results
	for _, m := range sp.Msgs {
		if !m.Returned {
			return "Publish of " + m.Tag + " did not return"
		}
		switch putRes[m.Tag] {
		case "err":
			if m.Err != jh.ErrReplay {
				return fmt.Sprintf("Publish of %s returned %v although the replayer's Put returned an error", m.Tag, m.Err)
			}
		default:
			if m.Err == sse.ErrProviderClosed && sp.ConcurrentShutdown {
				continue
			}
			if m.Err != nil {
				return fmt.Sprintf("Publish of %s returned %v", m.Tag, m.Err)
			}
		}
	}

	// Subscribe results and completeness of delivery
	for _, st := range order {
		s := st.s
		if !s.Returned {
			return "Subscribe of " + s.W.Name + " did not return"
		}
		var want error
		switch {
		case s.W.FirstErr != nil:
			want = s.W.FirstErr
		case st.regKnown && !st.registered:
			want = jh.ErrReplay
		}
		if s.Err != want {
			if want == nil && s.Err == sse.ErrProviderClosed && !st.regKnown && len(s.W.Events) == 0 {
				continue // a Shutdown came first: the subscription never reached Joe's loop
			}
			if want != nil {
				return fmt.Sprintf("Subscribe of %s returned %v, want its own error %v", s.W.Name, s.Err, want)
			}
			return fmt.Sprintf("Subscribe of %s returned %v although none of its own calls and no replay failed", s.W.Name, s.Err)
		}
		if !st.regKnown || !st.registered {
			continue
		}
		// replayed part
		if sp.ExpectReplay != nil {
			if wantR, ok := sp.ExpectReplay(s, puts[:st.regPuts]); ok && s.W.FirstErr == nil {
				if strings.Join(st.replayed, ",") != strings.Join(wantR, ",") {
					return fmt.Sprintf("%s presented Last-Event-ID %q after puts %v: replayed [%s], want [%s]", s.W.Name, s.LastID, outs(puts[:st.regPuts]), strings.Join(st.replayed, ","), strings.Join(wantR, ","))
				}
			}
		}
		// live part: every matching message serialised after the registration is owed unless excused
		for _, m := range sp.Msgs {
			idx, ok := msgIdx[m.Tag]
			if !ok || idx < st.reg || !intersect(m.Topics, s.Topics) {
				continue
			}
			if st.failedAt >= 0 && idx >= st.failedAt {
				continue // the subscriber failed at or before this message
			}
			if s.Cancel && !s.DoneBefore[m.Tag] {
				continue // not known to be published before the cancellation was requested
			}
			if sp.ConcurrentShutdown && !sp.DoneBeforeShutdown[m.Tag] {
				continue
			}
			if !st.complete[m.Tag] {
				return fmt.Sprintf("%s (topics %v, registered after %d messages) never received %s (published to %v, serialised as #%d)%s", s.W.Name, s.Topics, st.reg, m.Tag, m.Topics, idx, cancelNote(s))
			}
		}
	}
	// Gap-freedom per publisher, with no registration witness needed: a subscriber that received the k-th message
	// of a publisher live was registered when that message was fanned out; the same publisher's later Publish
	// calls started after that one had returned, so Joe serialised them later, and unless the subscriber failed,
	// was cancelled or a Shutdown was requested in between, each of them that returned nil is owed to it.
	for _, st := range order {
		s := st.s
		if s.W.FirstErr != nil || st.failedAt >= 0 || (st.regKnown && !st.registered) {
			continue
		}
		gotLive := map[string]bool{}
		for _, t := range st.live {
			if st.complete[base(t)] {
				gotLive[base(t)] = true
			}
		}
		first := map[int]*Msg{} // per publisher: the earliest of its messages this subscriber received live
		for _, m := range sp.Msgs {
			if gotLive[m.Tag] && (first[m.Pub] == nil || m.Seq < first[m.Pub].Seq) {
				first[m.Pub] = m
			}
		}
		for _, m := range sp.Msgs {
			f := first[m.Pub]
			if f == nil || m.Seq <= f.Seq || !m.Returned || m.Err != nil || !intersect(m.Topics, s.Topics) || gotLive[m.Tag] {
				continue
			}
			if s.Cancel && !s.DoneBefore[m.Tag] {
				continue
			}
			if sp.ConcurrentShutdown && !sp.DoneBeforeShutdown[m.Tag] {
				continue
			}
			return fmt.Sprintf("%s (topics %v) received %s but never %s, which the same publisher published afterwards to %v and Publish accepted (nil)%s", s.W.Name, s.Topics, f.Tag, m.Tag, m.Topics, cancelNote(s))
		}
	}
	return ""
}

func cancelNote(s *Sub) string {
	if s.Cancel {
		return " although its Publish had returned before the cancellation was requested"
	}
	return ""
}

func outs(p []PutRec) []string {
	var o []string
	for _, x := range p {
		o = append(o, x.Out)
	}
	return o
}
