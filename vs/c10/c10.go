// Package c10: reconnects carry the last received event ID and a fresh request body. DESIGN.md section 4, C10.
package c10

import (
	"errors"
	"fmt"
	"io"
	"net/http"
	"strings"
	"time"

	sse "github.com/tmaxmax/go-sse"
	"github.com/tmaxmax/go-sse/vrt"

	"verif/sq/ref"
	"verif/vs/ch"
	"verif/vs/run"
)

var streams = []string{
	"id:a\n\n",
	"id:\n\n",                // empty ID: clears the header
	"id:b\x00c\n\n",          // NUL: ignored
	"data:x\n\n",             // no ID
	"id:c\ndata:y\n",         // no blank line: dispatched only at a clean end
	"id:a\n\nid:b\n\n",       // two events
	"id:d\n\ndata:z\n\nid:e", // an ID in a line that is never terminated
	"id:f\nid:g\n\nid:h\n",   // last one pending
	"retry:1\nid:r\n\n: c\n", // trailing comment
	"id:n\x00\ndata:w\n\n",    // an ID with NUL inside an event that IS dispatched: the remembered ID stays
	"id:\xc3\xa9v\xe3\x82\xa4-2\n\n", // a UTF-8 ID
	"",
}

var errGetBody = errors.New("scripted GetBody failure")

type Params struct {
	BodyKind    string // "nil", "nobody", "getbody", "nogetbody", "getbody-fails-2nd", "seekable" (implements io.Seeker, has GetBody)
	MaxAttempts int
	Outcomes    []ch.Outcome
	// Calls > 1: Connect is called again on the same Connection after it returned for a reason other than the
	// context (rejected response, or MaxRetries = 1 exhausted): the history of attempts simply goes on.
	Calls int
	Tag   string
}

func (p Params) Name() string {
	return fmt.Sprintf("body-%s-attempts%d%s-calls%d", p.BodyKind, p.MaxAttempts, p.Tag, p.Calls)
}

type world struct {
	T        *ch.Transport
	Err      error
	Done     bool
	GetCalls int
	// CallEnds: number of attempts made when the k-th Connect call returned
	CallEnds []int
}

// seekBody is a request body that could be rewound - but the contract is GetBody
type seekBody struct{ *strings.Reader }

func (seekBody) Close() error { return nil }

type plainReader struct{ r io.Reader }

func (p plainReader) Read(b []byte) (int, error) { return p.r.Read(b) }

const reqBody = "the request body"

func body(p Params) func() {
	return func() {
		w := &world{}
		vrt.SetUser(w)
		ctx := vrt.NewCtx("req")
		w.T = &ch.Transport{Ctx: ctx, Next: func(n int) (ch.Outcome, bool) {
			if n >= p.MaxAttempts {
				return ch.Outcome{}, false
			}
			k := vrt.Choose(len(p.Outcomes)+1, "attempt outcome")
			if k == len(p.Outcomes) {
				return ch.Outcome{}, false
			}
			return p.Outcomes[k], true
		}}
		var rb io.Reader
		switch p.BodyKind {
		case "nobody":
			rb = http.NoBody
		case "getbody", "getbody-fails-2nd":
			rb = strings.NewReader(reqBody)
		case "nogetbody":
			rb = plainReader{strings.NewReader(reqBody)}
		}
		if p.BodyKind == "seekable" {
			rb = seekBody{strings.NewReader(reqBody)}
		}
		req := ch.NewRequest(ctx, rb)
		if p.BodyKind == "seekable" {
			req.GetBody = func() (io.ReadCloser, error) {
				w.GetCalls++
				return seekBody{strings.NewReader(reqBody)}, nil
			}
		}
		if p.BodyKind == "getbody-fails-2nd" {
			orig := req.GetBody
			req.GetBody = func() (io.ReadCloser, error) {
				w.GetCalls++
				if w.GetCalls >= 2 {
					return nil, errGetBody
				}
				return orig()
			}
		}
		cl := sse.Client{HTTPClient: &http.Client{Transport: w.T}, ResponseValidator: func(r *http.Response) error {
			if r.StatusCode != 200 {
				return errors.New("rejected")
			}
			return nil
		}, Backoff: sse.Backoff{Jitter: -1, InitialInterval: time.Millisecond}}
		if p.Calls > 1 {
			cl.Backoff.MaxRetries = 1
		}
		conn := cl.NewConnection(req)
		w.Err = conn.Connect()
		w.CallEnds = append(w.CallEnds, len(w.T.Attempts))
		for k := 1; k < p.Calls && !ctx.Cancelled(); k++ {
			w.Err = conn.Connect()
			w.CallEnds = append(w.CallEnds, len(w.T.Attempts))
		}
		w.Done = true
	}
}

func check(p Params) func(r *vrt.Result) string {
	return func(r *vrt.Result) string {
		if r.Outcome != vrt.Done {
			return r.Outcome + ": " + r.Msg
		}
		w := r.User.(*world)
		if !w.Done {
			return "Connect did not return"
		}
		var hist []string
		last := "" // ID of the most recently dispatched event that set one
		for i, a := range w.T.Attempts {
			desc := func() string {
				return fmt.Sprintf("request body %s, attempts so far [%s]", p.BodyKind, strings.Join(hist, ", "))
			}
			// what this attempt must carry
			if last == "" && a.HasLastEventID {
				return fmt.Sprintf("attempt %d carries Last-Event-ID %q although the last dispatched ID is empty or none: %s", i+1, a.LastEventID, desc())
			}
			if last != "" && (!a.HasLastEventID || a.LastEventID != last) {
				got := "no Last-Event-ID header"
				if a.HasLastEventID {
					got = fmt.Sprintf("Last-Event-ID %q", a.LastEventID)
				}
				return fmt.Sprintf("attempt %d carries %s, want %q (the ID of the most recently dispatched event): %s", i+1, got, last, desc())
			}
			switch p.BodyKind {
			case "getbody", "getbody-fails-2nd", "nogetbody", "seekable":
				if a.ReqBody != reqBody {
					return fmt.Sprintf("attempt %d was sent with request body %q, want the complete body %q: %s", i+1, a.ReqBody, reqBody, desc())
				}
			default:
				if a.ReqBody != "" {
					return fmt.Sprintf("attempt %d was sent with a request body %q: %s", i+1, a.ReqBody, desc())
				}
			}
			hist = append(hist, a.Outcome.String())
			if a.Outcome.Kind == "ok" {
				res := ref.Interpret(a.Outcome.Stream, ref.Mode{RetryDispatches: true, InitialLastEventID: last, NoFlushAtEnd: a.Outcome.End != "eof"})
				last = res.LastEventID
			}
			endsCall := false
			for _, e := range w.CallEnds {
				if e == i+1 {
					endsCall = true
				}
			}
			if a.Outcome.Kind == "reject" && !endsCall {
				return fmt.Sprintf("an attempt was made after the validator rejected a response: %s", desc())
			}
		}
		desc := fmt.Sprintf("request body %s, attempts [%s]", p.BodyKind, strings.Join(hist, ", "))
		if w.Err == nil {
			return "Connect returned nil: " + desc
		}
		n := len(w.T.Attempts)
		retryable := n > 0 && w.T.Attempts[n-1].Outcome.Kind != "reject"
		if p.BodyKind == "seekable" && w.GetCalls < n-1 {
			return fmt.Sprintf("%d attempts were made but GetBody was called only %d times (the body of every retry is to be obtained through GetBody): %s", n, w.GetCalls, desc)
		}
		switch p.BodyKind {
		case "nogetbody":
			if retryable && !w.T.Ended {
				if n != 1 || !errors.Is(w.Err, sse.ErrNoGetBody) {
					return fmt.Sprintf("the request body cannot be re-obtained, but Connect made %d attempts and returned %v, want one attempt and ErrNoGetBody: %s", n, w.Err, desc)
				}
				return ""
			}
			if n > 1 {
				return fmt.Sprintf("the request body cannot be re-obtained, but %d attempts were made: %s", n, desc)
			}
		case "getbody-fails-2nd":
			if n > 2 {
				return fmt.Sprintf("GetBody failed when called the second time, but %d attempts were made: %s", n, desc)
			}
			if n == 2 && retryable && !w.T.Ended && !errors.Is(w.Err, errGetBody) {
				return fmt.Sprintf("GetBody failed, but Connect returned %v: %s", w.Err, desc)
			}
		}
		return ""
	}
}

func summary(r *vrt.Result) string {
	w, _ := r.User.(*world)
	if w == nil {
		return r.Outcome
	}
	var sb strings.Builder
	for _, a := range w.T.Attempts {
		fmt.Fprintf(&sb, "[%v %q %q %s] ", a.HasLastEventID, a.LastEventID, a.ReqBody, a.Outcome)
	}
	fmt.Fprintf(&sb, "=> %v", w.Err)
	return sb.String()
}

func sig(r *vrt.Result, msg string) string {
	if i := strings.Index(msg, ": request body "); i >= 0 {
		msg = msg[:i]
	}
	for _, cut := range []string{" carries Last-Event-ID ", " carries no Last-Event-ID"} {
		if i := strings.Index(msg, cut); i >= 0 {
			if strings.Contains(msg, "although the last dispatched ID is empty or none") {
				msg = "an attempt carries a Last-Event-ID although the last dispatched ID is empty or none"
			} else {
				msg = "an attempt does not carry the ID of the most recently dispatched event"
			}
		}
	}
	return run.NormSig(r, msg)
}

func Scenarios(tier string) []run.Scenario {
	var outcomes []ch.Outcome
	outcomes = append(outcomes, ch.Outcome{Kind: "fail"})
	for _, s := range streams {
		for _, end := range []string{"eof", "err"} {
			outcomes = append(outcomes, ch.Outcome{Kind: "ok", Stream: s, End: end})
		}
	}
	outcomes = append(outcomes, ch.Outcome{Kind: "ok", Stream: "id:a\n\nid:b\n\n", End: "eof", Chunk: 1})
	outcomes = append(outcomes, ch.Outcome{Kind: "reject"})
	var out []run.Scenario
	add := func(p Params) {
		out = append(out, run.Scenario{Name: p.Name(), Body: body(p), Check: check(p), Sig: sig, Summary: summary,
			Opts: vrt.Options{PreemptBound: -1, FaultBound: -1, OrderBound: -1, Prune: false}})
	}
	n := 3
	if tier == "thorough" {
		n = 5
	}
	for _, bk := range []string{"nil", "getbody"} {
		add(Params{BodyKind: bk, MaxAttempts: n, Outcomes: outcomes})
	}
	for _, bk := range []string{"nobody", "nogetbody", "getbody-fails-2nd", "seekable"} {
		add(Params{BodyKind: bk, MaxAttempts: n - 1 + 1, Outcomes: outcomes[:9]})
	}
	// longer histories over a smaller alphabet: the value persists across any number of failures
	small := []ch.Outcome{{Kind: "fail"}, {Kind: "ok", Stream: "data:v\nid:\x00\n\n", End: "eof"}, {Kind: "ok", Stream: "id:a\n\n", End: "err"}, {Kind: "ok", Stream: "id:\n\n", End: "eof"}, {Kind: "ok", Stream: "data:x\n\n", End: "eof"}, {Kind: "ok", Stream: "id:d\n\nid:e", End: "eof"}}
	add(Params{BodyKind: "getbody", MaxAttempts: n + 3, Outcomes: small})
	// a long stream: an ID, then ~10 KB of events without one (the client's read buffer is recycled many times)
	var sb strings.Builder
	sb.WriteString("id:checkpoint-0001\ndata:first\n\n")
	for i := 0; i < 400; i++ {
		fmt.Fprintf(&sb, "event:tick\ndata: filler %d\n\n", i)
	}
	long := []ch.Outcome{{Kind: "ok", Stream: sb.String(), End: "err"}, {Kind: "ok", Stream: sb.String(), End: "eof"}, {Kind: "ok", Stream: sb.String() + "id:cut", End: "err", Chunk: 1},
		{Kind: "fail"}, {Kind: "ok", Stream: "data:x\n\n", End: "eof"}, {Kind: "ok", Stream: "id:\n\n", End: "eof"}}
	add(Params{BodyKind: "nil", MaxAttempts: n, Outcomes: long, Tag: "-long"})
	// Connect called again on the same Connection (after a rejected response or an exhausted retry budget of one)
	again := append(append([]ch.Outcome{}, small...), ch.Outcome{Kind: "reject"})
	for _, bk := range []string{"nil", "getbody"} {
		add(Params{BodyKind: bk, MaxAttempts: n + 1, Outcomes: again, Calls: 3, Tag: "-again"})
	}
	return out
}

var Check = &run.Check{
	ID: "C10", Level: "model_checking",
	Rule:        "Scenarios: the real Connect loop on the virtual clock with a scripted transport that records the Last-Event-ID header and drains the request body of every attempt; request body kinds none / NoBody / with GetBody / without GetBody / GetBody failing on its second call; inside each scenario the explorer chooses EVERY script of attempt outcomes up to the bound from {transport failure, rejected response, 200 + one of 10 streams (IDs a, empty, with NUL, none, pending at the end, two events, unterminated ID line, ...) ending cleanly or with a read error}. Also: a 10 KB stream whose only ID is in its first event; Connect called up to three times on one Connection (MaxRetries 1), the attempt history simply continuing. Oracle: fold of the WHATWG reference over the script (ID of the last dispatched event; a read error does not flush a pending event).",
	Assumptions: []string{"requests do not themselves carry a Last-Event-ID header (the property's proviso)"},
	Scenarios:   Scenarios,
	QuickBudget: 90, ThoroughBudget: 900,
}
