// Package c13: each event reaches exactly the callbacks subscribed to its type. DESIGN.md section 4, C13.
package c13

import (
	"fmt"
	"io"
	"net/http"
	"strings"

	sse "github.com/tmaxmax/go-sse"
	"github.com/tmaxmax/go-sse/vrt"

	"verif/vs/ch"
	"verif/vs/run"
)

// ---------------------------------------------------------------------------
// sequential part: every sequence of subscription operations and events, chosen by the explorer

var kinds = []string{`SubscribeEvent("a")`, `SubscribeEvent("b")`, "SubscribeMessages", "SubscribeToAll"}
var evTypes = []string{"", "a", "b", "c"}

// the second alphabet: type strings that an implementation might be tempted to treat specially
var kindTypes = []string{"a", "b"}
var oddKinds = []string{`SubscribeEvent("\x00")`, `SubscribeEvent("message")`, "SubscribeMessages", "SubscribeToAll"}
var oddKindTypes = []string{"\x00", "message"}
var oddEvTypes = []string{"", "\x00", "message", " "}

type entry struct {
	kind int // index into kinds
	typ  string
	live bool
	got  []int
	want []int
}

func (e *entry) matches(t string) bool {
	switch e.kind {
	case 0, 1:
		return t == e.typ
	case 2:
		return t == ""
	}
	return true
}

type seqWorld struct {
	Odd     bool
	Ops     []string
	Entries []*entry
	Err     error
	Done    bool
}

// opBody is the response body of the sequential scenarios: every Read first performs the operations the
// explorer chooses (on the Connect goroutine, between two events), then returns the next event's bytes.
type opBody struct {
	w        *seqWorld
	conn     *sse.Connection
	removers []sse.EventCallbackRemover
	maxOps   int
	nops     int
	nev      int
	pending  string
	before   bool // operations were all done before Connect: the body only delivers
	events   []string
	odd      bool // the second alphabet
	// reconnects: how often "Connect returned, call it again" was chosen; again: Connect is to be called once more
	reconnects int
	again      bool
}

func (b *opBody) alphabet() (ks, kts, ets []string) {
	if b.odd {
		return oddKinds, oddKindTypes, oddEvTypes
	}
	return kinds, kindTypes, evTypes
}

func (b *opBody) subscribe(k int) {
	_, kts, _ := b.alphabet()
	e := &entry{kind: k, live: true}
	if k < 2 {
		e.typ = kts[k]
	}
	b.w.Entries = append(b.w.Entries, e)
	cb := func(ev sse.Event) {
		if ev.Data == "" {
			// the type-only chunk, if dispatched at all: only to callbacks matching its type
			if !e.matches(ev.Type) {
				e.got = append(e.got, -1)
			}
			return
		}
		var n int
		fmt.Sscanf(ev.Data, "%d", &n)
		if !e.matches(ev.Type) {
			n = -n // delivered under a type this callback did not subscribe to
		}
		e.got = append(e.got, n)
	}
	var rm sse.EventCallbackRemover
	switch k {
	case 0, 1:
		rm = b.conn.SubscribeEvent(e.typ, cb)
	case 2:
		rm = b.conn.SubscribeMessages(cb)
	case 3:
		rm = b.conn.SubscribeToAll(cb)
	}
	b.removers = append(b.removers, rm)
}

// step performs one chosen operation; it returns the bytes of an event if the operation delivers one, and
// done=true when the sequence ends.
func (b *opBody) step() (ev string, done bool) {
	if b.nops >= b.maxOps {
		return "", true
	}
	kinds, _, evTypes := b.alphabet()
	n := len(kinds) + len(evTypes) + len(b.removers) + 2
	total := n
	if !b.before && b.reconnects == 0 {
		total++ // "this stream ends, Connect returns and is called again"
	}
	k := vrt.Choose(total, "operation")
	b.nops++
	switch {
	case k == n:
		b.w.Ops = append(b.w.Ops, "the stream ends; Connect is called again on the same Connection")
		b.reconnects++
		b.again = true
		return "", true
	case k == n-2:
		// a chunk that only names a type (a keep-alive "event: a" + blank line). Whether it is dispatched as an
		// event without data is not this property's business; the type must not stick to the next event.
		b.w.Ops = append(b.w.Ops, `chunk "event: a" without data`)
		return "\nevent: a\n\n:", false
	case k < len(kinds):
		b.w.Ops = append(b.w.Ops, kinds[k])
		b.subscribe(k)
	case k < len(kinds)+len(evTypes):
		t := evTypes[k-len(kinds)]
		b.nev++
		b.w.Ops = append(b.w.Ops, fmt.Sprintf("event#%d(type %q)", b.nev, t))
		for _, e := range b.w.Entries {
			if e.live && e.matches(t) {
				e.want = append(e.want, b.nev)
			}
		}
		s := ""
		if t != "" {
			s = "event: " + t + "\n"
		}
		if t == evTypes[1] {
			// events of the second type carry an ID of their own; the others inherit the last one (also across a
			// reconnection, where the first event may well have none)
			s += fmt.Sprintf("id: i%d\n", b.nev)
		}
		// the trailing ':' lets the scanner see that the blank line is complete; it opens a comment line that
		// the next chunk closes
		return fmt.Sprintf("\n%sdata: %d\n\n:", s, b.nev), false
	case k < n-2:
		i := k - len(kinds) - len(evTypes)
		b.w.Ops = append(b.w.Ops, fmt.Sprintf("remover#%d()", i))
		b.removers[i]()
		b.w.Entries[i].live = false
	default:
		return "", true
	}
	return "", false
}

func (b *opBody) Read(p []byte) (int, error) {
	for b.pending == "" {
		if b.before {
			if len(b.events) == 0 {
				return 0, io.EOF
			}
			b.pending, b.events = b.events[0], b.events[1:]
			break
		}
		ev, done := b.step()
		if done {
			return 0, io.EOF
		}
		b.pending = ev
	}
	n := copy(p, b.pending)
	b.pending = b.pending[n:]
	return n, nil
}

func (b *opBody) Close() error { return nil }

type oneShot struct{ body io.ReadCloser }

func (t oneShot) RoundTrip(req *http.Request) (*http.Response, error) {
	return &http.Response{StatusCode: 200, Status: "200 OK", Proto: "HTTP/1.1", ProtoMajor: 1, ProtoMinor: 1,
		Header: http.Header{"Content-Type": {"text/event-stream"}}, Body: t.body, Request: req}, nil
}

func seqBody(maxOps int, before bool, odd ...bool) func() {
	return func() {
		w := &seqWorld{}
		vrt.SetUser(w)
		ctx := vrt.NewCtx("req")
		b := &opBody{w: w, maxOps: maxOps, before: before, odd: len(odd) > 0 && odd[0]}
		w.Odd = b.odd
		cl := sse.Client{HTTPClient: &http.Client{Transport: oneShot{b}}, Backoff: sse.Backoff{MaxRetries: -1}}
		b.conn = cl.NewConnection(ch.NewRequest(ctx, http.NoBody))
		if before {
			// all operations first (events are queued), then Connect delivers the queue
			for {
				ev, done := b.step()
				if done {
					break
				}
				if ev != "" {
					b.events = append(b.events, ev)
				}
			}
			// what was queued is delivered to whoever is subscribed when Connect runs
			for _, e := range w.Entries {
				e.want = nil
			}
			for i := range b.events {
				if !strings.Contains(b.events[i], "data: ") {
					continue // the type-only chunk: nothing is owed for it
				}
				var t string
				if j := strings.Index(b.events[i], "event: "); j >= 0 {
					t = strings.SplitN(b.events[i][j+7:], "\n", 2)[0]
				}
				var n int
				fmt.Sscanf(b.events[i][strings.Index(b.events[i], "data: ")+6:], "%d", &n)
				for _, e := range w.Entries {
					if e.live && e.matches(t) {
						e.want = append(e.want, n)
					}
				}
			}
		}
		w.Err = b.conn.Connect()
		for b.again {
			// the same Connection, the same subscriptions, a fresh response body continuing the operation sequence
			b.again, b.pending = false, ""
			w.Err = b.conn.Connect()
		}
		w.Done = true
	}
}

func seqCheck(r *vrt.Result) string {
	if r.Outcome != vrt.Done {
		return r.Outcome + ": " + r.Msg
	}
	w := r.User.(*seqWorld)
	if !w.Done {
		return "Connect did not return"
	}
	for i, e := range w.Entries {
		if fmt.Sprint(e.got) != fmt.Sprint(e.want) {
			ks := kinds
			if w.Odd {
				ks = oddKinds
			}
			return fmt.Sprintf("after [%s]: callback #%d (%s) received events %v, want %v", strings.Join(w.Ops, ", "), i, ks[e.kind], e.got, e.want)
		}
	}
	return ""
}

func seqSummary(r *vrt.Result) string {
	w, _ := r.User.(*seqWorld)
	if w == nil {
		return r.Outcome
	}
	return strings.Join(w.Ops, ",")
}

// ---------------------------------------------------------------------------
// concurrent part

type concWorld struct {
	Err  error
	Done bool
}

type cbState struct {
	name       string
	kind       int
	subscribed *vrt.Shared // set in the step in which Subscribe* returned
	removing   *vrt.Shared // set before the remover is called
	removed    *vrt.Shared // set in the step in which the remover returned
	got        []int
}

type concBody struct {
	cbs      []*cbState
	events   []string // types
	next     int
	pending  string
	owed     [][]int // per callback: events it must have seen (decided at hand-over / after dispatch)
	handed   []bool  // per callback: subscribed when the current event was handed over
	inFlight int
}

func (b *concBody) settle() {
	// the event handed over by the previous Read has been dispatched completely by now
	if b.inFlight == 0 {
		return
	}
	for i, c := range b.cbs {
		if b.handed[i] && c.removing.Peek() == 0 {
			seen := 0
			for _, n := range c.got {
				if n == b.inFlight {
					seen++
				}
			}
			if c.matches(b.events[b.inFlight-1]) && seen != 1 {
				vrt.Fail("callback %s was subscribed before event #%d (type %q) was handed to the parser and its remover had not been called when the dispatch ended, but it saw the event %d times", c.name, b.inFlight, b.events[b.inFlight-1], seen)
			}
		}
	}
	b.inFlight = 0
}

func (c *cbState) matches(t string) bool {
	e := entry{kind: c.kind, typ: "a"}
	return e.matches(t)
}

func (b *concBody) Read(p []byte) (int, error) {
	vrt.Yield("body read")
	if b.pending == "" {
		b.settle()
		if b.next >= len(b.events) {
			return 0, io.EOF
		}
		t := b.events[b.next]
		b.next++
		for i, c := range b.cbs {
			b.handed[i] = c.subscribed.Peek() == 1
		}
		b.inFlight = b.next
		s := ""
		if t != "" {
			s = "event: " + t + "\n"
		}
		b.pending = fmt.Sprintf("\n%sdata: %d\n\n:", s, b.next)
	}
	n := copy(p, b.pending)
	b.pending = b.pending[n:]
	return n, nil
}

func (b *concBody) Close() error { return nil }

type ConcParams struct {
	Events []string
	Slow   bool // callbacks contain a scheduling point
	Actors string
}

func concScenario(p ConcParams) func() {
	return func() {
		w := &concWorld{}
		vrt.SetUser(w)
		ctx := vrt.NewCtx("req")
		b := &concBody{events: p.Events}
		cl := sse.Client{HTTPClient: &http.Client{Transport: oneShot{b}}, Backoff: sse.Backoff{MaxRetries: -1}}
		conn := cl.NewConnection(ch.NewRequest(ctx, http.NoBody))
		mk := func(name string, kind int) *cbState {
			c := &cbState{name: name, kind: kind, subscribed: vrt.NewShared(name+".subscribed", 0), removing: vrt.NewShared(name+".removing", 0), removed: vrt.NewShared(name+".removed", 0)}
			b.cbs = append(b.cbs, c)
			b.handed = append(b.handed, false)
			return c
		}
		sub := func(c *cbState) sse.EventCallbackRemover {
			cb := func(ev sse.Event) {
				if c.removed.Peek() == 1 {
					vrt.Fail("callback %s was invoked after its unsubscribe function had returned", c.name)
				}
				if p.Slow {
					vrt.Yield(c.name + " running")
				}
				var n int
				fmt.Sscanf(ev.Data, "%d", &n)
				if !c.matches(ev.Type) {
					vrt.Fail("callback %s received an event of type %q", c.name, ev.Type)
				}
				if len(c.got) > 0 && c.got[len(c.got)-1] >= n {
					vrt.Fail("callback %s received event #%d after #%d", c.name, n, c.got[len(c.got)-1])
				}
				c.got = append(c.got, n)
			}
			var rm sse.EventCallbackRemover
			switch c.kind {
			case 0:
				rm = conn.SubscribeEvent("a", cb)
			case 2:
				rm = conn.SubscribeMessages(cb)
			case 3:
				rm = conn.SubscribeToAll(cb)
			}
			c.subscribed.Poke(1)
			return rm
		}
		remove := func(c *cbState, rm sse.EventCallbackRemover) {
			c.removing.Poke(1)
			rm()
			c.removed.Poke(1)
		}
		// a permanent subscriber, so that dispatch always has two callbacks to go through
		perm := mk("P", 3)
		sub(perm)
		var hs []vrt.Handle
		for _, a := range p.Actors {
			switch a {
			case 'A': // subscribe to "a", later remove
				c := mk("A", 0)
				hs = append(hs, vrt.GoNamed("A", func() {
					rm := sub(c)
					remove(c, rm)
				}))
			case 'B': // subscribe to all, remove twice
				c := mk("B", 3)
				hs = append(hs, vrt.GoNamed("B", func() {
					rm := sub(c)
					remove(c, rm)
					rm()
				}))
			case 'R': // subscribed before Connect, removed concurrently
				c := mk("R", 3)
				rm := sub(c)
				hs = append(hs, vrt.GoNamed("R", func() { remove(c, rm) }))
			case 'T': // subscribed before Connect; two threads call the same unsubscribe function at once
				c := mk("T", 3)
				rm := sub(c)
				for _, tn := range []string{"T1", "T2"} {
					hs = append(hs, vrt.GoNamed(tn, func() {
						c.removing.Poke(1)
						rm()
						c.removed.Poke(1) // whichever call returns first: from then on no invocation
					}))
				}
			case 'M': // subscribed to unnamed events before Connect, removed and re-subscribed concurrently
				c := mk("M", 2)
				rm := sub(c)
				c2 := mk("M2", 2)
				hs = append(hs, vrt.GoNamed("M", func() {
					remove(c, rm)
					rm2 := sub(c2)
					rm() // stale remover: must not touch M2
					_ = rm2
				}))
			}
		}
		w.Err = conn.Connect()
		b.settle()
		w.Done = true
		vrt.Join(hs...)
	}
}

func concCheck(r *vrt.Result) string {
	if r.Outcome != vrt.Done {
		return r.Outcome + ": " + r.Msg
	}
	if w := r.User.(*concWorld); !w.Done {
		return "Connect did not return"
	}
	return ""
}

func sig(r *vrt.Result, msg string) string {
	if i := strings.Index(msg, "]: callback #"); i >= 0 {
		return "a callback received a different event sequence than the subscription history prescribes"
	}
	return run.NormSig(r, msg)
}

func Scenarios(tier string) []run.Scenario {
	var out []run.Scenario
	depth := 5
	if tier == "thorough" {
		depth = 7
	}
	for _, before := range []bool{false, true} {
		b := before
		out = append(out, run.Scenario{Name: fmt.Sprintf("sequences-depth%d-before-connect-%v", depth, b), Body: seqBody(depth, b), Check: seqCheck, Sig: sig, Summary: seqSummary,
			Opts: vrt.Options{PreemptBound: -1, FaultBound: -1, OrderBound: 0, Prune: false}})
	}
	// the same over type strings that invite special treatment: NUL, "message" (the type browsers default to), a blank
	out = append(out, run.Scenario{Name: fmt.Sprintf("sequences-depth%d-odd-types", depth-1), Body: seqBody(depth-1, false, true), Check: seqCheck, Sig: sig, Summary: seqSummary,
		Opts: vrt.Options{PreemptBound: -1, FaultBound: -1, OrderBound: 0, Prune: false}})
	// the same with every map order in one dispatch, one level shallower
	out = append(out, run.Scenario{Name: fmt.Sprintf("sequences-depth%d-one-order-deviation", depth-1), Body: seqBody(depth-1, false), Check: seqCheck, Sig: sig, Summary: seqSummary,
		Opts: vrt.Options{PreemptBound: -1, FaultBound: -1, OrderBound: 1, Prune: false}})
	for _, actors := range []string{"A", "B", "R", "M", "T", "AB", "AR", "BR", "RM"} {
		for _, slow := range []bool{false, true} {
			if tier != "thorough" && len(actors) > 1 && !slow {
				continue
			}
			p := ConcParams{Events: []string{"a", "", "a"}, Slow: slow, Actors: actors}
			if len(actors) > 1 {
				p.Events = []string{"a", ""}
			}
			out = append(out, run.Scenario{Name: fmt.Sprintf("concurrent-%s-slow%v", actors, slow), Body: concScenario(p), Check: concCheck, Sig: sig,
				Opts: vrt.Options{PreemptBound: -1, FaultBound: -1, OrderBound: -1, Prune: false, Race: true}})
		}
	}
	return out
}

var Check = &run.Check{
	ID: "C13", Level: "model_checking",
	Rule: "Sequential: the explorer chooses EVERY sequence of <= 5 (thorough 6) operations from {SubscribeEvent(a), SubscribeEvent(b), SubscribeMessages, SubscribeToAll, call any remover returned so far (also repeatedly and stale), deliver an event of type '', a, b, c, deliver a chunk that only names a type, let Connect return and call it again on the same Connection}, (and the same one level shallower over the types NUL, 'message', blank and empty) performed on the Connect goroutine between two events (inside the response body's Read) or all before Connect; a list model of live subscriptions prescribes each callback's exact event sequence. Concurrent: Connect dispatching 2-3 events while threads subscribe, remove, remove twice, re-subscribe, call a stale remover, and call one remover from two threads at once, with fast and slow (yielding) callbacks; all interleavings of the instrumented RWMutex operations and all map orders (state-key pruning); online oracle: no invocation after the remover returned, exactly once for callbacks that were subscribed at hand-over and not yet being removed when the dispatch ended, per-callback stream order.",
	Assumptions: []string{
		"data races on plain memory are outside the scheduler's view (DESIGN.md 2.1 and 8); the mutex discipline is explored at lock granularity",
	},
	Scenarios:   Scenarios,
	QuickBudget: 90, ThoroughBudget: 900,
}
