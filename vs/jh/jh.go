// Package jh holds the harness objects shared by the Joe scenarios (C03, C04, C06, C07, C17):
// scripted recording MessageWriters, a recording fault-injecting Replayer, and the log of everything the
// provider's goroutine did (JoeLog), from which the oracles reconstruct Joe's serialisation order.
//
// Discipline (DESIGN.md 2.1, state-key pruning): every record is written by exactly one thread and
// derived only from what that thread observed through shim operations. Writers and the Replayer are only
// ever called on the provider's goroutine, so JoeLog is written by one thread.
package jh

import (
	"errors"
	"fmt"
	"strings"

	sse "github.com/tmaxmax/go-sse"
	"github.com/tmaxmax/go-sse/vrt"
)

// Ev is one call made by the provider's goroutine.
type Ev struct {
	Kind string // "replay", "replay-end", "put", "send", "flush"
	Sub  string // writer name (replay, send, flush)
	Msg  string // message tag as given (put) / as sent incl. "#id" (send)
	Out  string // put: tag of the returned message
	Res  string // "ok", "err", "panic"
}

func (e Ev) String() string {
	return fmt.Sprintf("%s(%s%s%s)=%s", e.Kind, e.Sub, e.Msg, map[bool]string{true: "->" + e.Out, false: ""}[e.Out != ""], e.Res)
}

// JoeLog is the sequence of calls the provider's goroutine made on the harness objects.
type JoeLog struct{ E []Ev }

func (l *JoeLog) add(e Ev) {
	if l != nil {
		l.E = append(l.E, e)
	}
}

func (l *JoeLog) String() string {
	if l == nil {
		return ""
	}
	var ss []string
	for _, e := range l.E {
		ss = append(ss, e.String())
	}
	return strings.Join(ss, " ")
}

// Writer is a recording MessageWriter. All its methods run on the provider's goroutine.
type Writer struct {
	Name string
	Ctx  *vrt.Ctx
	JL   *JoeLog
	// FailChoices: how many of the first Send/Flush calls may fail (each is an explorer choice).
	FailChoices int
	// CancelOnFail: a failing call may also cancel Ctx in the same step (what net/http does).
	CancelOnFail bool
	// FailAt > 0: that call (counting Send and Flush together) fails, deterministically; FailCancel: it
	// also cancels Ctx in the same step. Scenarios use this to shard the fault space over processes.
	FailAt     int
	FailCancel bool
	// Slow: Send and Flush contain a scheduling point (a client that takes time), so other threads run
	// while the provider is inside the call.
	Slow bool
	// Returned is set (Poke) by the subscribing thread in the step in which Subscribe returned.
	Returned *vrt.Shared

	Calls    int
	Events   []string // "S:<tag>" for Send, "F" for Flush, "S!"/"F!" for failed calls
	Sent     []string // message tags successfully sent
	FirstErr error
}

// Tag identifies a message in records: its first data line (harness messages carry a unique tag there; a
// message without data carries it in its first comment line) plus "#"+ID.
func Tag(m *sse.Message) string {
	tag := ""
	lines := strings.Split(m.String(), "\n")
	for _, line := range lines {
		if strings.HasPrefix(line, "data: ") {
			tag = line[6:]
			break
		}
	}
	if tag == "" {
		for _, line := range lines {
			if strings.HasPrefix(line, ": ") {
				tag = line[2:]
				break
			}
		}
	}
	if m.ID.IsSet() {
		tag += "#" + m.ID.String()
	}
	return tag
}

func (w *Writer) fault(what string) error {
	if w.Slow {
		vrt.Yield(w.Name + "." + what + " in progress")
	}
	w.Calls++
	if w.Returned != nil && w.Returned.Peek() != 0 {
		vrt.Fail("%s.%s called after its Subscribe returned", w.Name, what)
	}
	if w.FirstErr != nil {
		vrt.Fail("%s.%s called after an earlier call on it failed", w.Name, what)
	}
	if w.FailAt > 0 && w.Calls == w.FailAt {
		if w.FailCancel {
			w.FirstErr = fmt.Errorf("%s: %s #%d failed (context cancelled)", w.Name, what, w.Calls)
			w.Ctx.CancelNow()
		} else {
			w.FirstErr = fmt.Errorf("%s: %s #%d failed", w.Name, what, w.Calls)
		}
		return w.FirstErr
	}
	if w.Calls <= w.FailChoices {
		n := 2
		if w.CancelOnFail && w.Ctx != nil {
			n = 3
		}
		switch vrt.ChooseFault(n, 1, w.Name+"."+what+" outcome") {
		case 1:
			w.FirstErr = fmt.Errorf("%s: %s #%d failed", w.Name, what, w.Calls)
		case 2:
			w.FirstErr = fmt.Errorf("%s: %s #%d failed (context cancelled)", w.Name, what, w.Calls)
			w.Ctx.CancelNow()
		}
	}
	return w.FirstErr
}

func (w *Writer) Send(m *sse.Message) error {
	t := Tag(m)
	if err := w.fault("Send"); err != nil {
		w.Events = append(w.Events, "S!")
		w.JL.add(Ev{Kind: "send", Sub: w.Name, Msg: t, Res: "err"})
		return err
	}
	w.Events = append(w.Events, "S:"+t)
	w.Sent = append(w.Sent, t)
	w.JL.add(Ev{Kind: "send", Sub: w.Name, Msg: t, Res: "ok"})
	return nil
}

func (w *Writer) Flush() error {
	if err := w.fault("Flush"); err != nil {
		w.Events = append(w.Events, "F!")
		w.JL.add(Ev{Kind: "flush", Sub: w.Name, Res: "err"})
		return err
	}
	w.Events = append(w.Events, "F")
	w.JL.add(Ev{Kind: "flush", Sub: w.Name, Res: "ok"})
	return nil
}

// Msg builds a message whose first data line is tag.
func Msg(tag string, id string) *sse.Message {
	m := &sse.Message{}
	m.AppendData(tag)
	if id != "" {
		m.ID = sse.ID(id)
	}
	return m
}

// MsgNoData builds a message without data fields (a checkpoint: ID and a comment carrying the tag). Clients
// do not dispatch it but they do remember its ID.
func MsgNoData(tag string, id string) *sse.Message {
	m := &sse.Message{}
	m.AppendComment(tag)
	if id != "" {
		m.ID = sse.ID(id)
	}
	return m
}

// ErrReplay is what a scripted replayer returns.
var ErrReplay = errors.New("scripted replayer error")

// Replayer records every call (it runs on the provider's goroutine, so the record is the provider's
// serialisation order) and delegates to Inner if set. Faults are explorer choices or scripted.
type Replayer struct {
	Inner sse.Replayer
	JL    *JoeLog
	// PutFaults / ReplayFaults: number of leading calls whose outcome is a choice {ok, error[, panic]}.
	PutFaults, ReplayFaults int
	AllowPanic              bool
	// Deterministic scripts: the k-th Put / Replay call returns an error (kind 0) or panics (kind 1).
	PutFailAt, ReplayFailAt     int
	PutFailKind, ReplayFailKind int

	// Reg, if set, receives the writer name whenever Replay is called (a buffered shim channel: the
	// scenario can wait until Joe has taken a subscription into his loop).
	Reg chan string

	Log       []string // "P:<tag>" / "R:<writer>" in call order, with outcome marks
	Puts      []string // tags in Put order (as returned, i.e. with IDs)
	nPut, nRe int
	Panicked  bool
}

func (r *Replayer) choice(isPut bool, nth int) int {
	if r.Panicked {
		vrt.Fail("replayer called after it panicked")
	}
	limit, what := r.ReplayFaults, "Replayer.Replay outcome"
	if isPut {
		limit, what = r.PutFaults, "Replayer.Put outcome"
		if r.PutFailAt == nth && nth > 0 {
			return 1 + r.PutFailKind%2
		}
	} else if r.ReplayFailAt == nth && nth > 0 {
		return 1 + r.ReplayFailKind%2
	}
	if nth > limit {
		return 0
	}
	n := 2
	if r.AllowPanic {
		n = 3
	}
	return vrt.ChooseFault(n, 1, what)
}

func (r *Replayer) Put(m *sse.Message, topics []string) (*sse.Message, error) {
	t := Tag(m)
	if t == "init#init" && r.Inner == nil {
		// the pre-initialisation message is not part of the scenario: no fault, not counted
		r.JL.add(Ev{Kind: "put", Msg: "init", Out: t, Res: "ok"})
		return m, nil
	}
	r.nPut++
	switch r.choice(true, r.nPut) {
	case 1:
		r.Log = append(r.Log, "P!:"+t)
		r.JL.add(Ev{Kind: "put", Msg: t, Res: "err"})
		return nil, ErrReplay
	case 2:
		r.Log = append(r.Log, "P!!:"+t)
		r.JL.add(Ev{Kind: "put", Msg: t, Res: "panic"})
		r.Panicked = true
		panic("scripted replayer panic in Put")
	}
	out := m
	if r.Inner != nil {
		var err error
		out, err = r.Inner.Put(m, topics)
		if err != nil {
			r.Log = append(r.Log, "Perr:"+t)
			r.JL.add(Ev{Kind: "put", Msg: t, Res: "err"})
			return nil, err
		}
	}
	r.Log = append(r.Log, "P:"+Tag(out))
	r.Puts = append(r.Puts, Tag(out))
	r.JL.add(Ev{Kind: "put", Msg: t, Out: Tag(out), Res: "ok"})
	return out, nil
}

func (r *Replayer) Replay(sub sse.Subscription) error {
	r.nRe++
	name := "?"
	if w, ok := sub.Client.(*Writer); ok {
		name = w.Name
	}
	if r.Reg != nil {
		vrt.Send(r.Reg, name)
	}
	switch r.choice(false, r.nRe) {
	case 1:
		r.Log = append(r.Log, "R!:"+name)
		r.JL.add(Ev{Kind: "replay", Sub: name, Res: "err"})
		return ErrReplay
	case 2:
		r.Log = append(r.Log, "R!!:"+name)
		r.JL.add(Ev{Kind: "replay", Sub: name, Res: "panic"})
		r.Panicked = true
		panic("scripted replayer panic in Replay")
	}
	r.Log = append(r.Log, "R:"+name)
	r.JL.add(Ev{Kind: "replay", Sub: name, Msg: sub.LastEventID.String(), Res: "ok"})
	var err error
	if r.Inner != nil {
		err = r.Inner.Replay(sub)
	}
	res := "ok"
	if err != nil {
		res = "err"
	}
	r.JL.add(Ev{Kind: "replay-end", Sub: name, Res: res})
	return err
}

// PreInit makes Joe start its goroutine from the calling thread, so that scenarios do not multiply
// their state space by which thread happened to initialise him. The message goes to a topic nobody has.
func PreInit(j *sse.Joe) {
	_ = j.Publish(Msg("init", "init"), []string{"_init"})
}

// PreInitFor is PreInit for a Joe whose replayer stores messages: the message is one the replayer rejects
// (with an ID for automatic IDs, without one for manual IDs), so the buffer stays empty.
func PreInitFor(j *sse.Joe, autoIDs bool) {
	if autoIDs {
		_ = j.Publish(Msg("init", "init"), []string{"_init"})
	} else {
		_ = j.Publish(Msg("init", ""), []string{"_init"})
	}
}
