// Package jh holds the harness objects shared by the Joe scenarios (C03, C04, C06, C07, C17):
// scripted recording MessageWriters and a recording, fault-injecting Replayer.
//
// Discipline (DESIGN.md 2.1, state-key pruning): every record is written by exactly one thread and
// derived only from what that thread observed through shim operations.
package jh

import (
	"errors"
	"fmt"

	sse "github.com/tmaxmax/go-sse"
	"github.com/tmaxmax/go-sse/vrt"
)

// Writer is a recording MessageWriter. All its methods run on the provider's goroutine.
type Writer struct {
	Name string
	Ctx  *vrt.Ctx
	// FailChoices: how many of the first Send/Flush calls may fail (each is an explorer choice).
	FailChoices int
	// CancelOnFail: a failing call may also cancel Ctx in the same step (what net/http does).
	CancelOnFail bool
	// FailAt > 0: that call (counting Send and Flush together) fails, deterministically; FailCancel: it
	// also cancels Ctx in the same step. Scenarios use this to shard the fault space over processes.
	FailAt     int
	FailCancel bool
	// Returned is set (Poke) by the subscribing thread in the step in which Subscribe returned.
	Returned *vrt.Shared

	Calls    int
	Events   []string // "S:<id>" for Send, "F" for Flush
	Sent     []string // message tags successfully sent
	FirstErr error
	Dirty    bool // a Send happened that no Flush followed yet
}

// Tag identifies a message in records: its first data line (harness messages carry a unique tag there) plus its ID.
func Tag(m *sse.Message) string {
	s := m.String()
	tag := ""
	for _, line := range splitLines(s) {
		if len(line) > 6 && line[:6] == "data: " {
			tag = line[6:]
			break
		}
	}
	if m.ID.IsSet() {
		tag += "#" + m.ID.String()
	}
	return tag
}

func splitLines(s string) []string {
	var out []string
	cur := ""
	for i := 0; i < len(s); i++ {
		if s[i] == '\n' {
			out = append(out, cur)
			cur = ""
		} else {
			cur += string(s[i])
		}
	}
	return out
}

func (w *Writer) fault(what string) error {
	w.Calls++
	if w.Returned != nil && w.Returned.Peek() != 0 {
		vrt.Fail("%s.%s called after its Subscribe returned", w.Name, what)
	}
	if w.FirstErr != nil {
		vrt.Fail("%s.%s called after an earlier call on it failed", w.Name, what)
	}
	if w.FailAt > 0 && w.Calls == w.FailAt {
		if w.FailCancel {
			w.FirstErr = fmt.Errorf("%s: %s #%d failed (context cancelled)", w.Name, what, w.Calls)
			w.Ctx.CancelNow()
		} else {
			w.FirstErr = fmt.Errorf("%s: %s #%d failed", w.Name, what, w.Calls)
		}
		return w.FirstErr
	}
	if w.Calls <= w.FailChoices {
		n := 2
		if w.CancelOnFail && w.Ctx != nil {
			n = 3
		}
		switch vrt.ChooseFault(n, 1, w.Name+"."+what+" outcome") {
		case 1:
			w.FirstErr = fmt.Errorf("%s: %s #%d failed", w.Name, what, w.Calls)
		case 2:
			w.FirstErr = fmt.Errorf("%s: %s #%d failed (context cancelled)", w.Name, what, w.Calls)
			w.Ctx.CancelNow()
		}
	}
	return w.FirstErr
}

func (w *Writer) Send(m *sse.Message) error {
	if err := w.fault("Send"); err != nil {
		w.Events = append(w.Events, "S!")
		return err
	}
	t := Tag(m)
	w.Events = append(w.Events, "S:"+t)
	w.Sent = append(w.Sent, t)
	w.Dirty = true
	return nil
}

func (w *Writer) Flush() error {
	if err := w.fault("Flush"); err != nil {
		w.Events = append(w.Events, "F!")
		return err
	}
	w.Events = append(w.Events, "F")
	w.Dirty = false
	return nil
}

// Msg builds a message whose first data line is tag.
func Msg(tag string, id string) *sse.Message {
	m := &sse.Message{}
	m.AppendData(tag)
	if id != "" {
		m.ID = sse.ID(id)
	}
	return m
}

// ErrReplay is what a scripted replayer returns.
var ErrReplay = errors.New("scripted replayer error")

// Replayer records every call (it runs on the provider's goroutine, so the record is the provider's
// serialisation order) and delegates to Inner if set. Faults are explorer choices.
type Replayer struct {
	Inner sse.Replayer
	// PutFaults / ReplayFaults: number of leading calls whose outcome is a choice {ok, error, panic}.
	PutFaults, ReplayFaults int
	AllowPanic              bool
	// Deterministic scripts: the k-th Put / Replay call returns an error (1) or panics (2).
	PutFailAt, ReplayFailAt     int
	PutFailKind, ReplayFailKind int

	Log       []string // "P:<tag>" / "R:<writer>" in call order, with outcome suffix
	Puts      []string // tags in Put order (as returned, i.e. with IDs)
	nPut, nRe int
	Panicked  bool
}

func (r *Replayer) choice(nth, limit int, what string) int {
	if r.Panicked {
		vrt.Fail("replayer called after it panicked")
	}
	if what[9] == 'P' && r.PutFailAt == nth && nth > 0 {
		return 1 + r.PutFailKind%2
	}
	if what[9] == 'R' && r.ReplayFailAt == nth && nth > 0 {
		return 1 + r.ReplayFailKind%2
	}
	if nth > limit {
		return 0
	}
	n := 2
	if r.AllowPanic {
		n = 3
	}
	return vrt.ChooseFault(n, 1, what)
}

func (r *Replayer) Put(m *sse.Message, topics []string) (*sse.Message, error) {
	r.nPut++
	switch r.choice(r.nPut, r.PutFaults, "Replayer.Put outcome") {
	case 1:
		r.Log = append(r.Log, "P!:"+Tag(m))
		return nil, ErrReplay
	case 2:
		r.Log = append(r.Log, "P!!:"+Tag(m))
		r.Panicked = true
		panic("scripted replayer panic in Put")
	}
	out := m
	if r.Inner != nil {
		var err error
		out, err = r.Inner.Put(m, topics)
		if err != nil {
			r.Log = append(r.Log, "Perr:"+Tag(m))
			return nil, err
		}
	}
	r.Log = append(r.Log, "P:"+Tag(out))
	r.Puts = append(r.Puts, Tag(out))
	return out, nil
}

func (r *Replayer) Replay(sub sse.Subscription) error {
	r.nRe++
	name := "?"
	if w, ok := sub.Client.(*Writer); ok {
		name = w.Name
	}
	switch r.choice(r.nRe, r.ReplayFaults, "Replayer.Replay outcome") {
	case 1:
		r.Log = append(r.Log, "R!:"+name)
		return ErrReplay
	case 2:
		r.Log = append(r.Log, "R!!:"+name)
		r.Panicked = true
		panic("scripted replayer panic in Replay")
	}
	r.Log = append(r.Log, "R:"+name)
	if r.Inner != nil {
		return r.Inner.Replay(sub)
	}
	return nil
}

// PreInit makes Joe start its goroutine from the calling thread, so that scenarios do not multiply
// their state space by which thread happened to initialise him. The message goes to a topic nobody has.
func PreInit(j *sse.Joe) {
	_ = j.Publish(Msg("init", "init"), []string{"_init"})
}
