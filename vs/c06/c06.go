// Package c06: Joe never crashes and never touches a subscriber after its Subscribe returned;
// Subscribe returns the subscriber's own error, else nil. DESIGN.md section 4, C06.
package c06

import (
	"context"
	"fmt"
	"strings"
	"time"

	sse "github.com/tmaxmax/go-sse"
	"github.com/tmaxmax/go-sse/vrt"

	"verif/vs/jh"
	"verif/vs/run"
)

// Script of one subscriber's writer: which call fails (0: none) and whether the failure cancels its context.
type Script struct {
	FailAt int
	Cancel bool
}

func (s Script) String() string {
	if s.FailAt == 0 {
		return "ok"
	}
	if s.Cancel {
		return fmt.Sprintf("f%dc", s.FailAt)
	}
	return fmt.Sprintf("f%d", s.FailAt)
}

type Params struct {
	Subs       []Script
	Canceller  bool // a separate thread cancels each subscriber's context
	NPub       int
	Shutdown   bool // a separate thread calls Shutdown concurrently
	Replayer   bool
	ReplayFail int  // 0: never; k: the k-th Replay call returns an error
	PutFail    int  // 0: never; k: the k-th Put call returns (nil, error): the message is still delivered live
	NoPreInit  bool // leave Joe's initialisation to whichever thread comes first
	// Shutdown2: a second thread calls Shutdown concurrently as well.
	Shutdown2 bool
	// ShutCtx: the concurrent Shutdown is given a context that another thread cancels at any moment (a shutdown
	// deadline that runs out while Joe is busy); the final Shutdown(background) still follows.
	ShutCtx bool
	// Inner ("finite" / "valid", automatic IDs): a real replayer holding History messages published beforehand;
	// every subscriber presents the ID of the first one, so its replay consists of real Send/Flush calls.
	Inner   string
	History int
	// Cap: capacity of the finite replayer (default 8); Present: the ID every subscriber resumes from (default
	// "0"). With Cap 4, History 6 and Present "2" the replay starts in the last slot of a wrapped ring.
	Cap     int
	Present string
	Preempt int
}

func (p Params) Name() string {
	var ss []string
	for _, s := range p.Subs {
		ss = append(ss, s.String())
	}
	extra := ""
	if p.Shutdown2 {
		extra += "-shut2"
	}
	if p.ShutCtx {
		extra += "-shutctx"
	}
	if p.Inner != "" {
		extra += fmt.Sprintf("-%s-h%d", p.Inner, p.History)
		if p.Cap > 0 {
			extra += fmt.Sprintf("-cap%d-from%s", p.Cap, p.Present)
		}
	}
	if p.PutFail > 0 {
		extra += fmt.Sprintf("-putfail%d", p.PutFail)
	}
	return fmt.Sprintf("subs[%s]-canc%v-pub%d-shut%v-rep%v%d-noinit%v-pb%d%s", strings.Join(ss, ","), p.Canceller, p.NPub, p.Shutdown, p.Replayer, p.ReplayFail, p.NoPreInit, p.Preempt, extra)
}

type subRec struct {
	W        *jh.Writer
	Returned bool
	Err      error
}

type world struct {
	Subs    []*subRec
	R       *jh.Replayer
	PubErrs []error
	ShutErr error
	Shut2   error
	Final   error
}

func body(p Params) func() {
	return func() {
		w := &world{}
		vrt.SetUser(w)
		var rep sse.Replayer
		if p.Replayer {
			w.R = &jh.Replayer{ReplayFailAt: p.ReplayFail, PutFailAt: p.PutFail}
			rep = w.R
		}
		switch p.Inner {
		case "finite":
			f, _ := sse.NewFiniteReplayer(max(p.Cap, 8*btoi(p.Cap == 0)), true)
			w.R = &jh.Replayer{Inner: f}
			rep = w.R
		case "valid":
			v, _ := sse.NewValidReplayer(time.Hour, true)
			v.Now = func() time.Time { return time.Date(2030, 1, 1, 0, 0, 0, 0, time.UTC) }
			w.R = &jh.Replayer{Inner: v}
			rep = w.R
		}
		j := &sse.Joe{Replayer: rep}
		if p.Inner != "" {
			jh.PreInitFor(j, true)
			for k := 0; k < p.History; k++ {
				if err := j.Publish(jh.Msg(fmt.Sprintf("h%d", k), ""), []string{"a"}); err != nil {
					vrt.Fail("history Publish returned %v", err)
				}
			}
		} else if !p.NoPreInit {
			jh.PreInit(j)
		}
		var subs, others []vrt.Handle
		for i, sc := range p.Subs {
			name := fmt.Sprintf("S%d", i+1)
			ctx := vrt.NewCtx(name)
			ret := vrt.NewShared(name+".returned", 0)
			wr := &jh.Writer{Name: fmt.Sprintf("W%d", i+1), Ctx: ctx, FailAt: sc.FailAt, FailCancel: sc.Cancel, Returned: ret}
			rec := &subRec{W: wr}
			w.Subs = append(w.Subs, rec)
			subs = append(subs, vrt.GoNamed(name, func() {
				sub := sse.Subscription{Client: wr, Topics: []string{"a"}}
				if p.Inner != "" {
					sub.LastEventID = sse.ID("0")
					if p.Present != "" {
						sub.LastEventID = sse.ID(p.Present)
					}
				}
				err := j.Subscribe(ctx, sub)
				ret.Poke(1) // same scheduler step as Subscribe's last synchronisation operation
				rec.Returned, rec.Err = true, err
			}))
			if p.Canceller {
				others = append(others, vrt.GoNamed(fmt.Sprintf("C%d", i+1), func() { ctx.Cancel() }))
			}
		}
		if p.NPub > 0 {
			others = append(others, vrt.GoNamed("P", func() {
				for k := 0; k < p.NPub; k++ {
					w.PubErrs = append(w.PubErrs, j.Publish(jh.Msg(fmt.Sprintf("m%d", k+1), ""), []string{"a"}))
				}
			}))
		}
		if p.Shutdown && p.ShutCtx {
			dc := vrt.NewCtx("shutdown")
			others = append(others, vrt.GoNamed("XD", func() { dc.Cancel() }))
			others = append(others, vrt.GoNamed("D", func() { w.ShutErr = j.Shutdown(dc) }))
		} else if p.Shutdown {
			others = append(others, vrt.GoNamed("D", func() { w.ShutErr = j.Shutdown(context.Background()) }))
		}
		if p.Shutdown2 {
			others = append(others, vrt.GoNamed("D2", func() { w.Shut2 = j.Shutdown(context.Background()) }))
		}
		vrt.Join(others...)
		w.Final = j.Shutdown(context.Background())
		vrt.Join(subs...)
	}
}

func btoi(b bool) int {
	if b {
		return 1
	}
	return 0
}

func summary(r *vrt.Result) string {
	w, _ := r.User.(*world)
	if w == nil {
		return r.Outcome
	}
	var sb strings.Builder
	sb.WriteString(r.Outcome)
	for _, s := range w.Subs {
		fmt.Fprintf(&sb, " | %s ret=%v err=%v ev=%s", s.W.Name, s.Returned, s.Err, strings.Join(s.W.Events, ","))
	}
	fmt.Fprintf(&sb, " | pub=%v shut=%v final=%v", w.PubErrs, w.ShutErr, w.Final)
	if w.R != nil {
		fmt.Fprintf(&sb, " | R=%s", strings.Join(w.R.Log, ","))
	}
	return sb.String()
}

func check(p Params) func(r *vrt.Result) string {
	return func(r *vrt.Result) string {
		if r.Outcome != vrt.Done {
			return r.Outcome + ": " + r.Msg
		}
		w := r.User.(*world)
		for i, s := range w.Subs {
			if !s.Returned {
				return fmt.Sprintf("Subscribe #%d did not return", i+1)
			}
			var want error
			kind := ""
			if s.W.FirstErr != nil {
				want, kind = s.W.FirstErr, "Send/Flush"
			} else if w.R != nil {
				for _, l := range w.R.Log {
					if l == "R!:"+s.W.Name {
						want, kind = jh.ErrReplay, "replay"
					}
				}
			}
			if want == nil && s.Err == sse.ErrProviderClosed && len(s.W.Events) == 0 {
				continue // Shutdown won the race against this Subscribe: it was never registered
			}
			if s.Err != want {
				if want != nil {
					return fmt.Sprintf("Subscribe returned %v although the subscriber's own %s error occurred (%v)", s.Err, kind, want)
				}
				return fmt.Sprintf("Subscribe returned %v although no Send, Flush or replay error occurred for it", s.Err)
			}
		}
		for _, e := range w.PubErrs {
			if e != nil && e != sse.ErrProviderClosed && !(p.PutFail > 0 && e == jh.ErrReplay) {
				return fmt.Sprintf("Publish returned %v", e)
			}
		}
		return ""
	}
}

func sig(r *vrt.Result, msg string) string {
	s := run.NormSig(r, msg)
	// the value of the error is case data, not part of the class
	if i := strings.Index(s, " error occurred ("); i >= 0 {
		s = s[:i+len(" error occurred")]
	}
	return s
}

func scen(p Params) run.Scenario {
	return run.Scenario{Name: p.Name(), Body: body(p), Check: check(p), Sig: sig, Summary: summary,
		Opts: vrt.Options{PreemptBound: p.Preempt, FaultBound: -1, OrderBound: -1, Prune: true, Race: true}}
}

// scripts enumerates writer scripts failing at call 1..maxCall (Send1, Flush1, Send2, ...), with and without cancellation.
func scripts(maxCall int) []Script {
	out := []Script{{}}
	for k := 1; k <= maxCall; k++ {
		out = append(out, Script{k, false}, Script{k, true})
	}
	return out
}

func Scenarios(tier string) []run.Scenario {
	var out []run.Scenario
	add := func(p Params) { out = append(out, scen(p)) }
	bools := []bool{false, true}
	// one subscriber: every script up to its 4th call, unbounded interleavings, Joe not pre-initialised
	for _, sc := range scripts(4) {
		for _, canc := range bools {
			for _, shut := range bools {
				add(Params{Subs: []Script{sc}, Canceller: canc, NPub: 2, Shutdown: shut, NoPreInit: true, Preempt: -1})
			}
		}
	}
	// one subscriber with a replayer whose Replay fails
	for _, sc := range scripts(2) {
		for _, canc := range bools {
			for _, shut := range bools {
				for rf := 0; rf <= 1; rf++ {
					add(Params{Subs: []Script{sc}, Canceller: canc, NPub: 1, Shutdown: shut, Replayer: true, ReplayFail: rf, Preempt: -1})
				}
			}
		}
	}
	// two subscribers (symmetric: unordered pairs of scripts)
	maxCall, npub := 2, 1
	if tier == "thorough" {
		maxCall, npub = 3, 2
	}
	ss := scripts(maxCall)
	for a := 0; a < len(ss); a++ {
		for b := a; b < len(ss); b++ {
			for _, canc := range bools {
				for _, shut := range bools {
					add(Params{Subs: []Script{ss[a], ss[b]}, Canceller: canc, NPub: npub, Shutdown: shut, Preempt: -1})
				}
			}
		}
	}
	// a replayer that rejects the k-th message: the subscriber still gets a real message
	for _, sc := range scripts(2) {
		for pf := 1; pf <= 2; pf++ {
			for _, canc := range bools {
				add(Params{Subs: []Script{sc}, Canceller: canc, NPub: 2, Shutdown: canc, Replayer: true, PutFail: pf, Preempt: -1})
			}
		}
	}
	// two concurrent Shutdown calls (plus the final one)
	for _, sc := range []Script{{}, {FailAt: 1}} {
		for _, canc := range bools {
			add(Params{Subs: []Script{sc}, Canceller: canc, NPub: 1, Shutdown: true, Shutdown2: true, Preempt: -1})
		}
	}
	add(Params{NPub: 1, Shutdown: true, Shutdown2: true, NoPreInit: true, Preempt: -1})
	// a Shutdown whose context is cancelled while Joe is busy with a delivery
	for _, sc := range []Script{{}, {FailAt: 1}, {FailAt: 2}} {
		for _, canc := range bools {
			add(Params{Subs: []Script{sc}, Canceller: canc, NPub: 2, Shutdown: true, ShutCtx: true, Preempt: -1})
		}
		add(Params{Subs: []Script{sc, {}}, NPub: 1, Shutdown: true, ShutCtx: true, Preempt: -1})
	}
	// real replayers with a history: the subscriber's writer fails during the replay (Send, Flush) or after it
	for _, inner := range []string{"finite", "valid"} {
		for h := 2; h <= 3; h++ {
			for _, sc := range scripts(h + 1) {
				for _, canc := range bools {
					if canc && tier != "thorough" && h == 3 {
						continue
					}
					add(Params{Subs: []Script{sc}, Canceller: canc, NPub: 1, Shutdown: canc, Inner: inner, History: h, Preempt: -1})
				}
			}
		}
	}
	// a wrapped ring: the replay starts in its last slot and continues from slot 0
	for _, sc := range scripts(4) {
		add(Params{Subs: []Script{sc}, NPub: 1, Inner: "finite", History: 6, Cap: 4, Present: "2", Preempt: -1})
		add(Params{Subs: []Script{sc}, NPub: 1, Inner: "finite", History: 7, Cap: 4, Present: "3", Preempt: -1})
	}
	if tier == "thorough" {
		// three subscribers, one publish, preemption-bounded
		for _, sc := range scripts(2) {
			add(Params{Subs: []Script{sc, {}, {FailAt: 1, Cancel: true}}, Canceller: true, NPub: 1, Shutdown: true, Preempt: 2})
		}
	}
	return out
}

var Check = &run.Check{
	ID: "C06", Level: "model_checking",
	Rule: "Scenarios: 1-3 subscribers whose MessageWriter fails at its k-th Send/Flush call (k enumerated; with and without cancelling the subscriber's context in the same step, as net/http does) x canceller threads x publisher x concurrent Shutdown x replayer whose Replay fails or whose k-th Put rejects the message; two Shutdown calls racing each other; a Shutdown whose context another thread cancels at any moment; real FiniteReplayer / ValidReplayer holding 2-3 events, the subscriber resuming from the first one with a writer that fails at any call of the replay or after it (also on a wrapped ring of 4 whose replay starts in the last slot); per scenario all interleavings at synchronisation operations (unbounded with state-key pruning unless the scenario name says pb>=0), all select tie-breaks and all map orders are explored.",
	Assumptions: []string{
		"schedules are explored at the granularity of synchronisation operations under sequential consistency (DESIGN.md 2.1)",
		"a panic reaching the top of a goroutine is process death",
		"'after Subscribe returned' is taken strictly: the flag is set in the scheduler step of Subscribe's last synchronisation operation",
	},
	Scenarios:   Scenarios,
	QuickBudget: 90, ThoroughBudget: 900,
}
