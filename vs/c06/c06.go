// Package c06: Joe never crashes and never touches a subscriber after its Subscribe returned;
// Subscribe returns the subscriber's own error, else nil. DESIGN.md section 4, C06.
package c06

import (
	"context"
	"fmt"

	sse "github.com/tmaxmax/go-sse"
	"github.com/tmaxmax/go-sse/vrt"

	"verif/vs/jh"
	"verif/vs/run"
)

type Params struct {
	NSubs        int
	Fail         int  // leading Send/Flush calls of every subscriber whose outcome is a choice
	CancelOnFail bool // a failing call may cancel the subscriber's context in the same step
	Canceller    bool // a separate thread cancels each subscriber's context
	NPub         int
	Shutdown     bool // a separate thread calls Shutdown concurrently
	Replayer     bool
	ReplayFaults int
	Preempt      int
	Faults       int
}

func (p Params) Name() string {
	return fmt.Sprintf("subs%d-fail%d-cof%v-canc%v-pub%d-shut%v-rep%v%d-pb%d-fb%d", p.NSubs, p.Fail, p.CancelOnFail, p.Canceller, p.NPub, p.Shutdown, p.Replayer, p.ReplayFaults, p.Preempt, p.Faults)
}

type subRec struct {
	W        *jh.Writer
	Returned bool
	Err      error
}

type world struct {
	Subs    []*subRec
	R       *jh.Replayer
	PubErrs []error
	ShutErr error
	Final   error
}

func body(p Params) func() {
	return func() {
		w := &world{}
		vrt.SetUser(w)
		var rep sse.Replayer
		if p.Replayer {
			w.R = &jh.Replayer{ReplayFaults: p.ReplayFaults}
			rep = w.R
		}
		j := &sse.Joe{Replayer: rep}
		var subs, others []vrt.Handle
		for i := 0; i < p.NSubs; i++ {
			name := fmt.Sprintf("S%d", i+1)
			ctx := vrt.NewCtx(name)
			ret := vrt.NewShared(name+".returned", 0)
			wr := &jh.Writer{Name: fmt.Sprintf("W%d", i+1), Ctx: ctx, FailChoices: p.Fail, CancelOnFail: p.CancelOnFail, Returned: ret}
			rec := &subRec{W: wr}
			w.Subs = append(w.Subs, rec)
			subs = append(subs, vrt.GoNamed(name, func() {
				err := j.Subscribe(ctx, sse.Subscription{Client: wr, Topics: []string{"a"}})
				ret.Poke(1) // same scheduler step as Subscribe's last synchronisation operation
				rec.Returned, rec.Err = true, err
			}))
			if p.Canceller {
				others = append(others, vrt.GoNamed(fmt.Sprintf("C%d", i+1), func() { ctx.Cancel() }))
			}
		}
		if p.NPub > 0 {
			others = append(others, vrt.GoNamed("P", func() {
				for k := 0; k < p.NPub; k++ {
					w.PubErrs = append(w.PubErrs, j.Publish(jh.Msg(fmt.Sprintf("m%d", k+1), ""), []string{"a"}))
				}
			}))
		}
		if p.Shutdown {
			others = append(others, vrt.GoNamed("D", func() { w.ShutErr = j.Shutdown(context.Background()) }))
		}
		vrt.Join(others...)
		w.Final = j.Shutdown(context.Background())
		vrt.Join(subs...)
	}
}

func check(p Params) func(r *vrt.Result) string {
	return func(r *vrt.Result) string {
		if r.Outcome != vrt.Done {
			return r.Outcome + ": " + r.Msg
		}
		w := r.User.(*world)
		for i, s := range w.Subs {
			if !s.Returned {
				return fmt.Sprintf("Subscribe #%d did not return", i+1)
			}
			var want error
			if s.W.FirstErr != nil {
				want = s.W.FirstErr
			} else if w.R != nil {
				for _, l := range w.R.Log {
					if l == "R!:"+s.W.Name {
						want = jh.ErrReplay
					}
				}
			}
			if want == nil && s.Err == sse.ErrProviderClosed && len(s.W.Events) == 0 {
				continue // Shutdown won the race against this Subscribe: it was never registered
			}
			if s.Err != want {
				return fmt.Sprintf("Subscribe of %s returned %v, want %v (its own Send/Flush/replay error if one occurred, else nil)", s.W.Name, s.Err, want)
			}
		}
		for _, e := range w.PubErrs {
			if e != nil && e != sse.ErrProviderClosed {
				return fmt.Sprintf("Publish returned %v", e)
			}
		}
		return ""
	}
}

func scen(p Params) run.Scenario {
	return run.Scenario{Name: p.Name(), Body: body(p), Check: check(p), Sig: run.NormSig,
		Opts: vrt.Options{PreemptBound: p.Preempt, FaultBound: p.Faults, Prune: true}}
}

func Scenarios(tier string) []run.Scenario {
	var out []run.Scenario
	add := func(p Params) { out = append(out, scen(p)) }
	for _, cof := range []bool{false, true} {
		for _, canc := range []bool{false, true} {
			for _, shut := range []bool{false, true} {
				// one subscriber, all interleavings, up to 3 faults among its first 3 calls
				add(Params{NSubs: 1, Fail: 3, CancelOnFail: cof, Canceller: canc, NPub: 2, Shutdown: shut, Preempt: -1, Faults: -1})
				add(Params{NSubs: 1, Fail: 1, CancelOnFail: cof, Canceller: canc, NPub: 1, Shutdown: shut, Replayer: true, ReplayFaults: 1, Preempt: -1, Faults: -1})
			}
		}
	}
	pb := 2
	if tier == "thorough" {
		pb = 3
	}
	for _, cof := range []bool{false, true} {
		for _, canc := range []bool{false, true} {
			add(Params{NSubs: 2, Fail: 2, CancelOnFail: cof, Canceller: canc, NPub: 2, Shutdown: true, Preempt: pb, Faults: 2})
			add(Params{NSubs: 2, Fail: 2, CancelOnFail: cof, Canceller: canc, NPub: 2, Shutdown: false, Replayer: true, ReplayFaults: 2, Preempt: pb, Faults: 2})
		}
	}
	if tier == "thorough" {
		add(Params{NSubs: 2, Fail: 3, CancelOnFail: true, Canceller: true, NPub: 2, Shutdown: true, Preempt: -1, Faults: -1})
		add(Params{NSubs: 3, Fail: 2, CancelOnFail: true, Canceller: true, NPub: 2, Shutdown: true, Preempt: 2, Faults: 2})
	}
	return out
}

var Check = &run.Check{
	ID: "C06", Level: "model_checking",
	Rule: "Scenarios: 1-3 subscribers with scripted failing/cancelling MessageWriters x canceller threads x publisher x concurrent Shutdown x scripted replayer errors; all interleavings at synchronisation operations (preemption bound per scenario, -1 = unbounded with state-key pruning), all select tie-breaks, all map orders, all fault choices.",
	Assumptions: []string{
		"schedules are explored at the granularity of synchronisation operations under sequential consistency (DESIGN.md 2.1)",
		"a panic reaching the top of a goroutine is process death",
	},
	Scenarios:   Scenarios,
	QuickBudget: 60, ThoroughBudget: 600,
}
