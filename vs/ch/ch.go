// Package ch holds the harness objects of the client scenarios (C10, C11, C12, C13, C05): a scripted
// http.RoundTripper whose attempt outcomes are explorer choices, response bodies that end cleanly, with a
// read error, or with a cancellation, and request-body kinds.
package ch

import (
	"context"
	"errors"
	"fmt"
	"io"
	"net/http"
	"strings"

	"github.com/tmaxmax/go-sse/vrt"
)

// ErrTransport is a transport-level failure; ErrRead a failure of the response body.
var (
	ErrTransport = errors.New("scripted transport failure")
	ErrRead      = errors.New("scripted body read failure")
	// ErrReadWrapsEOF: what a transport reports when the peer closes the connection inside the body
	ErrReadWrapsEOF = fmt.Errorf("connection closed by peer: %w", io.EOF)
)

// Outcome of one attempt.
type Outcome struct {
	Kind   string // "fail" (transport error), "reject" (response the validator rejects), "ok" (200 + Stream)
	Stream string
	// End: "eof" clean end after the stream, "err" read error after the stream, "cancel" the request context is
	// cancelled after the stream (the body then fails with the context's error, as net/http's does).
	End string
	// Chunk: 0 deliver the stream in one read, 1 byte at a time.
	Chunk int
	// Err: the transport error of a "fail" outcome (nil: ErrTransport).
	Err error
	// Hang: after the stream (or for a rejected response: at once) the body blocks until the request context is
	// cancelled, like a server that keeps the response open.
	Hang bool
}

func (o Outcome) String() string {
	if o.Kind != "ok" {
		return o.Kind
	}
	return fmt.Sprintf("ok(%q,%s,chunk%d)", o.Stream, o.End, o.Chunk)
}

// Body is a scripted response body.
type Body struct {
	O      Outcome
	Ctx    *vrt.Ctx
	pos    int
	Closed bool
	Reads  int
	// Live: every Read is a scheduling point and fails with the context's error once the request context is
	// cancelled (what net/http's body does), so a cancelling thread can land between any two reads.
	Live bool
}

// ErrBodyClosed is what net/http's body returns when it is read after Close.
var ErrBodyClosed = errors.New("http: read on closed response body")

func (b *Body) Read(p []byte) (int, error) {
	b.Reads++
	if b.Closed {
		return 0, ErrBodyClosed
	}
	if b.Live {
		vrt.Yield("body read")
		if b.Ctx.Cancelled() {
			return 0, context.Canceled
		}
	}
	if b.pos < len(b.O.Stream) {
		n := len(b.O.Stream) - b.pos
		if b.O.Chunk == 1 {
			n = 1
		}
		if n > len(p) {
			n = len(p)
		}
		copy(p, b.O.Stream[b.pos:b.pos+n])
		b.pos += n
		return n, nil
	}
	if b.O.Hang {
		// nothing more arrives; the read returns only when the request is cancelled
		vrt.Recv(b.Ctx.Done())
		return 0, context.Canceled
	}
	switch b.O.End {
	case "err":
		return 0, ErrRead
	case "errwrap":
		return 0, ErrReadWrapsEOF
	case "cancel":
		b.Ctx.CancelNow()
		return 0, b.Ctx.Err()
	}
	return 0, io.EOF
}

func (b *Body) Close() error { b.Closed = true; return nil }

// Attempt is what the transport saw of one request.
type Attempt struct {
	LastEventID    string
	HasLastEventID bool
	ReqBody        string
	Outcome        Outcome
	Body           *Body
	At             int64 // virtual time of the attempt
}

// Transport is the scripted RoundTripper. Next decides the outcome of the next attempt (typically an explorer
// choice); it returns ok=false when the script is over: the transport then cancels the request context and
// fails with its error, which ends Connect.
type Transport struct {
	Ctx      *vrt.Ctx
	Next     func(n int) (Outcome, bool)
	Attempts []*Attempt
	Ended    bool
	// Live makes the response bodies live (see Body.Live).
	Live bool
}

func (t *Transport) RoundTrip(req *http.Request) (*http.Response, error) {
	a := &Attempt{At: vrt.Now()}
	if v, ok := req.Header["Last-Event-Id"]; ok {
		a.HasLastEventID = true
		a.LastEventID = strings.Join(v, "|")
	}
	if req.Body != nil && req.Body != http.NoBody {
		b, _ := io.ReadAll(req.Body)
		a.ReqBody = string(b)
	}
	if t.Ctx.Cancelled() {
		// net/http does not send a request whose context is already done
		return nil, t.Ctx.Err()
	}
	o, ok := t.Next(len(t.Attempts))
	if !ok {
		t.Ended = true
		t.Ctx.CancelNow()
		return nil, t.Ctx.Err()
	}
	a.Outcome = o
	t.Attempts = append(t.Attempts, a)
	switch o.Kind {
	case "fail":
		if o.Err != nil {
			return nil, o.Err
		}
		return nil, ErrTransport
	case "reject":
		a.Body = &Body{O: Outcome{Kind: "reject", Stream: "no", End: "eof", Hang: o.Hang}, Ctx: t.Ctx}
		return &http.Response{StatusCode: 500, Status: "500 Internal Server Error", Proto: "HTTP/1.1", ProtoMajor: 1, ProtoMinor: 1,
			Header: http.Header{"Content-Type": {"text/plain"}}, Body: a.Body, Request: req}, nil
	}
	a.Body = &Body{O: o, Ctx: t.Ctx, Live: t.Live}
	return &http.Response{StatusCode: 200, Status: "200 OK", Proto: "HTTP/1.1", ProtoMajor: 1, ProtoMinor: 1,
		Header: http.Header{"Content-Type": {"text/event-stream"}}, Body: a.Body, Request: req}, nil
}

// NewRequest builds a request bound to a controlled context.
func NewRequest(ctx *vrt.Ctx, body io.Reader) *http.Request {
	req, err := http.NewRequestWithContext(ctx, http.MethodGet, "http://verif.invalid/events", body)
	if err != nil {
		panic(err)
	}
	return req
}
