// Package c17: a failing subscriber or replayer affects nobody else. DESIGN.md section 4, C17.
package c17

import (
	"context"
	"errors"
	"fmt"
	"net/http"
	"strings"
	"time"

	sse "github.com/tmaxmax/go-sse"
	"github.com/tmaxmax/go-sse/vrt"

	"verif/vs/jh"
	"verif/vs/jo"
	"verif/vs/run"
)

type Params struct {
	FailSub, FailAt int // subscriber FailSub (1-based, 0: none) fails at its FailAt-th Send/Flush call
	// replayer script: Put / Replay call number that fails (0: none) and how (0 error, 1 panic)
	PutFailAt, PutKind       int
	ReplayFailAt, ReplayKind int
	NMsg                     int
	Orders                   int // bound on map iterations in non-canonical order per execution (-1: none)
	Slow                     bool
	LateSub                  bool // a fourth subscriber {a,b} is started by the publisher after its first message
	Racing                   bool // publishing starts at once instead of after the three subscriptions reached Joe's loop
	TwoPubs                  bool // the messages are split between two publisher threads (odd / even)
	WithLastID               bool // every subscriber presents a Last-Event-ID
	FailCancel               bool // the failing call also cancels that subscriber's context in the same step (as net/http does)
}

func (p Params) Name() string {
	return fmt.Sprintf("fail%d@%d-put%d/%d-replay%d/%d-msgs%d-slow%v-late%v-racing%v-ob%d", p.FailSub, p.FailAt, p.PutFailAt, p.PutKind, p.ReplayFailAt, p.ReplayKind, p.NMsg, p.Slow, p.LateSub, p.Racing, p.Orders) + map[bool]string{true: "-twopubs", false: ""}[p.TwoPubs] + map[bool]string{true: "-lastid", false: ""}[p.WithLastID] + map[bool]string{true: "-failcancel", false: ""}[p.FailCancel]
}

type world struct {
	JL   *jh.JoeLog
	R    *jh.Replayer
	Subs []*jo.Sub
	Msgs []*jo.Msg
	Shut error
	// resume-fails scenarios: number of events the resuming subscribers missed
	Missed int
}

var subTopics = [][]string{{"a"}, {"a", "b"}, {"b"}, {"b", "a"}}
var msgTopics = [][]string{{"a"}, {"a", "b"}, {"b"}, {"a"}}

func body(p Params) func() {
	return func() {
		w := &world{JL: &jh.JoeLog{}}
		vrt.SetUser(w)
		w.R = &jh.Replayer{JL: w.JL, PutFailAt: p.PutFailAt, PutFailKind: p.PutKind, ReplayFailAt: p.ReplayFailAt, ReplayFailKind: p.ReplayKind}
		if !p.Racing {
			w.R.Reg = vrt.MakeChan[string](8)
		}
		j := &sse.Joe{Replayer: w.R}
		jh.PreInit(j)
		var subs []vrt.Handle
		startSub := func(i int) {
			name := fmt.Sprintf("S%d", i+1)
			ctx := vrt.NewCtx(name)
			ret := vrt.NewShared(name+".returned", 0)
			wr := &jh.Writer{Name: fmt.Sprintf("W%d", i+1), Ctx: ctx, JL: w.JL, Returned: ret, Slow: p.Slow}
			if p.FailSub == i+1 {
				wr.FailAt = p.FailAt
				wr.FailCancel = p.FailCancel
			}
			rec := &jo.Sub{W: wr, Topics: subTopics[i]}
			w.Subs = append(w.Subs, rec)
			subs = append(subs, vrt.GoNamed(name, func() {
				sub := sse.Subscription{Client: wr, Topics: subTopics[i]}
				if p.WithLastID {
					sub.LastEventID = sse.ID("seen")
				}
				err := j.Subscribe(ctx, sub)
				ret.Poke(1)
				rec.Returned, rec.Err = true, err
			}))
		}
		for i := 0; i < 3; i++ {
			startSub(i)
		}
		var recs []*jo.Msg
		for k := 0; k < p.NMsg; k++ {
			r := &jo.Msg{Tag: fmt.Sprintf("m%d", k+1), Topics: msgTopics[k], Seq: k}
			recs = append(recs, r)
			w.Msgs = append(w.Msgs, r)
		}
		if !p.Racing {
			expect := 3
			if p.ReplayFailAt > 0 && p.ReplayKind == 1 && p.ReplayFailAt < 3 {
				expect = p.ReplayFailAt // after its panic the replayer is not consulted for the remaining subscriptions
			}
			for i := 0; i < expect; i++ {
				vrt.Recv(w.R.Reg) // Joe has taken the subscription into his loop (he registers it before his next receive)
			}
		}
		var pubs []vrt.Handle
		if p.TwoPubs {
			for pi := 0; pi < 2; pi++ {
				var mine []*jo.Msg
				for k, r := range recs {
					if k%2 == pi {
						r.Pub, r.Seq = pi, k/2
						mine = append(mine, r)
					}
				}
				pubs = append(pubs, vrt.GoNamed(fmt.Sprintf("P%d", pi+1), func() {
					for _, r := range mine {
						r.Err = j.Publish(jh.Msg(r.Tag, ""), append([]string(nil), r.Topics...))
						r.Returned = true
					}
				}))
			}
		} else {
			pubs = append(pubs, vrt.GoNamed("P", func() {
				for k, r := range recs {
					r.Err = j.Publish(jh.Msg(r.Tag, ""), append([]string(nil), r.Topics...))
					r.Returned = true
					if k == 0 && p.LateSub {
						startSub(3)
					}
				}
			}))
		}
		vrt.Join(pubs...)
		w.Shut = j.Shutdown(context.Background())
		vrt.Join(subs...)
	}
}

// resumeFailBody: a subscriber resumes from the first of three buffered events through a REAL replayer and its
// writer fails during the replay (at its failAt-th call); a healthy subscriber resumes at the same time.
func resumeFailBody(valid, auto bool, failAt int, wrapped bool) func() {
	return func() {
		w := &world{JL: &jh.JoeLog{}}
		vrt.SetUser(w)
		var inner sse.Replayer
		if valid {
			v, _ := sse.NewValidReplayer(time.Hour, auto)
			base := time.Date(2030, 1, 1, 0, 0, 0, 0, time.UTC)
			v.Now = func() time.Time { return base }
			inner = v
		} else {
			f, _ := sse.NewFiniteReplayer(4, auto)
			inner = f
		}
		w.R = &jh.Replayer{JL: w.JL, Inner: inner}
		j := &sse.Joe{Replayer: w.R}
		jh.PreInitFor(j, auto)
		// wrapped (finite, capacity 4): five events, so the ring holds h4 h1 h2 h3 in its slots; resuming from h2 makes
		// the replay start in the last slot and continue from slot 0 (the live publish evicts only h1)
		hist, from := 3, 0
		if wrapped {
			hist, from = 5, 2
		}
		w.Missed = hist - 1 - from
		var ids []string
		for k := 0; k <= hist; k++ {
			if auto {
				ids = append(ids, fmt.Sprint(k))
			} else {
				ids = append(ids, fmt.Sprintf("e%d", k))
			}
		}
		for k := 0; k < hist; k++ {
			r := &jo.Msg{Tag: fmt.Sprintf("h%d", k), Topics: []string{"a"}, Seq: k}
			w.Msgs = append(w.Msgs, r)
			m := jh.Msg(r.Tag, "")
			if !auto {
				m = jh.Msg(r.Tag, ids[k])
			}
			r.Err = j.Publish(m, append([]string(nil), r.Topics...))
			r.Returned = true
		}
		var subs []vrt.Handle
		for i := 0; i < 2; i++ {
			name := fmt.Sprintf("S%d", i+1)
			ctx := vrt.NewCtx(name)
			ret := vrt.NewShared(name+".returned", 0)
			wr := &jh.Writer{Name: fmt.Sprintf("W%d", i+1), Ctx: ctx, JL: w.JL, Returned: ret}
			if i == 0 {
				wr.FailAt = failAt
			}
			rec := &jo.Sub{W: wr, Topics: []string{"a"}, LastID: ids[from], HasLastID: true}
			w.Subs = append(w.Subs, rec)
			subs = append(subs, vrt.GoNamed(name, func() {
				err := j.Subscribe(ctx, sse.Subscription{Client: wr, Topics: rec.Topics, LastEventID: sse.ID(ids[from])})
				ret.Poke(1)
				rec.Returned, rec.Err = true, err
			}))
		}
		live := &jo.Msg{Tag: "p1", Topics: []string{"a"}, Pub: 1}
		w.Msgs = append(w.Msgs, live)
		pub := vrt.GoNamed("P", func() {
			m := jh.Msg("p1", "")
			if !auto {
				m = jh.Msg("p1", ids[hist])
			}
			live.Err = j.Publish(m, append([]string(nil), live.Topics...))
			live.Returned = true
		})
		vrt.Join(pub)
		w.Shut = j.Shutdown(context.Background())
		vrt.Join(subs...)
	}
}

// sessWriter is an http.ResponseWriter with FlushError whose failAt-th Write fails after accepting half of it.
type sessWriter struct {
	hdr    http.Header
	body   []byte
	writes int
	failAt int
	failed bool
}

var errSessWrite = errors.New("scripted ResponseWriter failure")

func (w *sessWriter) Header() http.Header { return w.hdr }
func (w *sessWriter) WriteHeader(int)     {}
func (w *sessWriter) FlushError() error   { return nil }
func (w *sessWriter) Write(p []byte) (int, error) {
	w.writes++
	if w.writes == w.failAt {
		w.failed = true
		w.body = append(w.body, p[:len(p)/2]...)
		return len(p) / 2, errSessWrite
	}
	w.body = append(w.body, p...)
	return len(p), nil
}

type sessWorld struct {
	Failed bool // the first writer's failAt-th Write happened (how many Writes a message takes is the library's business)
	Bodies [2]string
	Errs   [2]error
	Ret    [2]bool
	Want   string
	Pub    []error
	Shut   error
}

// sessionBody: the subscribers are real Sessions (what Server hands to a provider). The first one's ResponseWriter
// fails at its failAt-th Write; the second is healthy and must receive exactly the published messages.
func sessionBody(failAt int) func() {
	return func() {
		w := &sessWorld{}
		vrt.SetUser(w)
		rep := &jh.Replayer{Reg: vrt.MakeChan[string](8)}
		j := &sse.Joe{Replayer: rep}
		jh.PreInit(j)
		writers := []*sessWriter{{hdr: http.Header{}, failAt: failAt}, {hdr: http.Header{}}}
		var subs []vrt.Handle
		for i, wr := range writers {
			req, _ := http.NewRequest(http.MethodGet, "http://verif.invalid/", http.NoBody)
			sess, err := sse.Upgrade(wr, req)
			if err != nil {
				vrt.Fail("Upgrade: %v", err)
			}
			ctx := vrt.NewCtx(fmt.Sprintf("S%d", i+1))
			subs = append(subs, vrt.GoNamed(fmt.Sprintf("S%d", i+1), func() {
				w.Errs[i] = j.Subscribe(ctx, sse.Subscription{Client: sess, Topics: []string{"a"}})
				w.Ret[i] = true
			}))
			vrt.Recv(rep.Reg)
		}
		pub := vrt.GoNamed("P", func() {
			for k := 0; k < 3; k++ {
				m := &sse.Message{ID: sse.ID(fmt.Sprint("e", k))}
				m.AppendData(fmt.Sprintf("first line of %d", k), fmt.Sprintf("second line of %d", k))
				if k == 1 {
					m.AppendComment("note")
				}
				w.Want += m.String()
				w.Pub = append(w.Pub, j.Publish(m, []string{"a"}))
			}
		})
		vrt.Join(pub)
		w.Shut = j.Shutdown(context.Background())
		vrt.Join(subs...)
		for i, wr := range writers {
			w.Bodies[i] = string(wr.body)
		}
		w.Failed = writers[0].failed
	}
}

func sessionCheck(failAt int) func(r *vrt.Result) string {
	return func(r *vrt.Result) string {
		if r.Outcome != vrt.Done {
			return r.Outcome + ": " + r.Msg
		}
		w := r.User.(*sessWorld)
		for k, e := range w.Pub {
			if e != nil {
				return fmt.Sprintf("Publish #%d returned %v", k+1, e)
			}
		}
		if !w.Ret[0] || !w.Ret[1] {
			return "a Subscribe did not return"
		}
		if w.Failed && w.Errs[0] != errSessWrite {
			return fmt.Sprintf("the Session whose ResponseWriter failed at Write #%d: Subscribe returned %v, want the writer's error", failAt, w.Errs[0])
		}
		if !w.Failed && (w.Errs[0] != nil || w.Bodies[0] != w.Want) {
			return fmt.Sprintf("the first Session's writer never failed (fewer than %d Writes were made), yet its Subscribe returned %v and it received %q, want %q", failAt, w.Errs[0], w.Bodies[0], w.Want)
		}
		if w.Errs[1] != nil {
			return fmt.Sprintf("the healthy Session's Subscribe returned %v", w.Errs[1])
		}
		if w.Bodies[1] != w.Want {
			return fmt.Sprintf("the healthy Session received %q, want exactly the published messages %q (its neighbour's ResponseWriter failed at Write #%d)", w.Bodies[1], w.Want, failAt)
		}
		if !strings.HasPrefix(w.Want, w.Bodies[0]) {
			return fmt.Sprintf("the failing Session received %q, which is not a prefix of the published messages", w.Bodies[0])
		}
		return ""
	}
}

func resumeCheck(r *vrt.Result) string {
	if r.Outcome != vrt.Done {
		return r.Outcome + ": " + r.Msg
	}
	w := r.User.(*world)
	if v := jo.Check(&jo.Spec{JL: w.JL, HasReplayer: true, Subs: w.Subs, Msgs: w.Msgs, Ignore: map[string]bool{"init": true}}); v != "" {
		return v
	}
	// the healthy subscriber got the two missed events by replay
	for _, s := range w.Subs[1:] {
		n := 0
		for _, e := range s.W.Events {
			if strings.HasPrefix(e, "S:h") {
				n++
			}
		}
		if len(s.W.Events) == 0 && s.Err == sse.ErrProviderClosed {
			continue // the final Shutdown came first: this subscription never reached Joe
		}
		if n != w.Missed && s.W.FirstErr == nil {
			return fmt.Sprintf("%s resumed from a buffered event but got %d of the %d missed events while another subscriber's replay failed (calls %v)", s.W.Name, n, w.Missed, s.W.Events)
		}
	}
	return ""
}

func check(r *vrt.Result) string {
	if r.Outcome != vrt.Done {
		return r.Outcome + ": " + r.Msg
	}
	w := r.User.(*world)
	if w.Shut != nil {
		return fmt.Sprintf("Shutdown returned %v", w.Shut)
	}
	return jo.Check(&jo.Spec{JL: w.JL, HasReplayer: true, Subs: w.Subs, Msgs: w.Msgs, Ignore: map[string]bool{"init": true}})
}

func summary(r *vrt.Result) string {
	w, _ := r.User.(*world)
	if w == nil {
		return r.Outcome
	}
	var sb strings.Builder
	sb.WriteString(r.Outcome + " " + w.JL.String())
	for _, s := range w.Subs {
		fmt.Fprintf(&sb, " | %s err=%v", s.W.Name, s.Err)
	}
	for _, m := range w.Msgs {
		fmt.Fprintf(&sb, " | %s err=%v", m.Tag, m.Err)
	}
	return sb.String()
}

func sig(r *vrt.Result, msg string) string {
	if strings.HasPrefix(msg, "the healthy Session received") {
		return "the healthy Session did not receive exactly the published messages"
	}
	if strings.HasPrefix(msg, "the failing Session received") {
		return "the failing Session received something that is not a prefix of the published messages"
	}
	s := run.NormSig(r, msg)
	if i := strings.Index(s, " (topics"); i >= 0 {
		if j := strings.Index(s[i:], ") "); j > 0 {
			s = s[:i] + s[i+j+1:]
		}
	}
	if i := strings.Index(s, " never received"); i >= 0 {
		s = s[:i] + " never received a message it was owed"
	}
	return s
}

func Scenarios(tier string) []run.Scenario {
	var out []run.Scenario
	ob := 1
	if tier == "thorough" {
		ob = 2
	}
	add := func(p Params) {
		if !p.Racing {
			p.Orders = ob
		} else {
			p.Orders = -1
		}
		out = append(out, run.Scenario{Name: p.Name(), Body: body(p), Check: check, Sig: sig, Summary: summary,
			Opts: vrt.Options{PreemptBound: -1, FaultBound: -1, OrderBound: p.Orders, Prune: true}})
	}
	type rs struct{ pa, pk, ra, rk int }
	scripts := []rs{{}}
	maxCall := 3
	nmsg := 4
	for k := 1; k <= maxCall; k++ {
		for kind := 0; kind <= 1; kind++ {
			scripts = append(scripts, rs{pa: k, pk: kind}, rs{ra: k, rk: kind})
		}
	}
	if tier == "thorough" {
		scripts = append(scripts, rs{pa: 1, pk: 0, ra: 2, rk: 1}, rs{pa: 2, pk: 1, ra: 1, rk: 0})
	}
	for _, sc := range scripts {
		for f := 0; f <= 3; f++ {
			maxAt := 4
			if f == 0 {
				maxAt = 1
			}
			for at := 1; at <= maxAt; at++ {

				p := Params{FailSub: f, FailAt: at, PutFailAt: sc.pa, PutKind: sc.pk, ReplayFailAt: sc.ra, ReplayKind: sc.rk, NMsg: nmsg}
				if f == 0 {
					p.FailAt = 0
				}
				add(p)
				if tier == "thorough" || (at <= 2 && sc.ra == 0 && sc.pa <= 1) {
					p.Slow = true
					add(p)
				}
			}
		}
	}
	// everything racing: two messages, no subscriber failure / every subscriber failing at its first call
	for _, sc := range scripts {
		for f := 0; f <= 3; f++ {
			if tier != "thorough" && (sc.pa > 1 || sc.ra > 1 || f%2 == 1 || sc.pk+sc.rk == 0 && sc.pa+sc.ra > 0) {
				continue
			}
			add(Params{FailSub: f, FailAt: 1, PutFailAt: sc.pa, PutKind: sc.pk, ReplayFailAt: sc.ra, ReplayKind: sc.rk, NMsg: 2, Racing: true})
		}
	}
	// the failing call also cancels the subscriber's context: it still gets its own error, the others everything
	for f := 1; f <= 3; f++ {
		for at := 1; at <= 2; at++ {
			add(Params{FailSub: f, FailAt: at, NMsg: 2, FailCancel: true})
		}
	}
	// subscribers that present a Last-Event-ID while the replayer fails or panics in Replay or Put
	for k := 1; k <= 3; k++ {
		for kind := 0; kind <= 1; kind++ {
			add(Params{ReplayFailAt: k, ReplayKind: kind, NMsg: 2, WithLastID: true})
		}
	}
	add(Params{PutFailAt: 1, PutKind: 1, NMsg: 2, WithLastID: true})
	// two publishers at once: every Publish gets the outcome of its own Put
	for k := 1; k <= 3; k++ {
		for kind := 0; kind <= 1; kind++ {
			for _, n := range []int{2, 4} {
				if n == 4 && tier != "thorough" && k == 3 {
					continue
				}
				add(Params{PutFailAt: k, PutKind: kind, NMsg: n, TwoPubs: true})
			}
		}
	}
	add(Params{NMsg: 4, TwoPubs: true})
	// a failure during the replay through a real replayer
	for _, valid := range []bool{false, true} {
		for _, auto := range []bool{false, true} {
			for at := 1; at <= 4; at++ {
				v, a, f := valid, auto, at
				out = append(out, run.Scenario{Name: fmt.Sprintf("resume-fails-valid%v-auto%v-call%d", v, a, f), Body: resumeFailBody(v, a, f, false), Check: resumeCheck, Sig: sig, Summary: summary,
					Opts: vrt.Options{PreemptBound: -1, FaultBound: -1, OrderBound: -1, Prune: true}})
				if !v {
					out = append(out, run.Scenario{Name: fmt.Sprintf("resume-fails-wrapped-auto%v-call%d", a, f), Body: resumeFailBody(v, a, f, true), Check: resumeCheck, Sig: sig, Summary: summary,
						Opts: vrt.Options{PreemptBound: -1, FaultBound: -1, OrderBound: -1, Prune: true}})
				}
			}
		}
	}
	// real Sessions as subscribers, one of them over a ResponseWriter that fails at its k-th Write
	for at := 1; at <= 14; at++ {
		a := at
		out = append(out, run.Scenario{Name: fmt.Sprintf("sessions-write%d-fails", a), Body: sessionBody(a), Check: sessionCheck(a), Sig: sig,
			Opts: vrt.Options{PreemptBound: -1, FaultBound: -1, OrderBound: -1, Prune: true}})
	}
	// a subscriber arriving after the replayer failed
	late := append([]rs{{ra: 4, rk: 0}, {ra: 4, rk: 1}}, scripts[1:]...)
	for _, sc := range late {
		if tier != "thorough" && (sc.pa > 1 || (sc.ra > 0 && sc.ra < 3)) {
			continue
		}
		n := 3
		if tier == "thorough" {
			n = 4
		}
		add(Params{FailSub: 1, FailAt: 1, PutFailAt: sc.pa, PutKind: sc.pk, ReplayFailAt: sc.ra, ReplayKind: sc.rk, NMsg: n, LateSub: true})
	}
	return out
}

var Check = &run.Check{
	ID: "C17", Level: "model_checking",
	Rule: "Scenarios: three subscribers on {a}, {a,b}, {b} (optionally a fourth arriving later), one of which fails at its k-th Send/Flush call (subscriber and k enumerated), a publisher with 3-4 messages on a / a,b / b (or two publishers sharing them), and a recording replayer whose k-th Put or Replay returns an error or panics (enumerated; subscribers with and without a Last-Event-ID); all interleavings (unbounded, state-key pruning); map iteration: all orders in the racing scenarios, and in the phased ones every permutation in up to 1 (thorough 2) fan-outs per execution with the canonical order elsewhere (ob in the scenario name), so the failing subscriber is visited first, in the middle and last in the fan-out that fails.",
	Assumptions: []string{
		"schedules are explored at the granularity of synchronisation operations under sequential consistency (DESIGN.md 2.1)",
		"for a subscriber that registers after the replayer has panicked there is no registration witness: only exactly-once, order, topic matching and gap-freedom after its first message are checked for it",
	},
	Scenarios:   Scenarios,
	QuickBudget: 90, ThoroughBudget: 900,
}
