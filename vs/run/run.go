// Package run drives scheduler-explored checks: it shards a check's scenarios over worker processes
// (one execution at a time per process), aggregates their statistics, writes the evidence file and
// replay artefacts, and implements --replay.
package run

import (
	"bufio"
	"context"
	"encoding/json"
	"flag"
	"fmt"
	"os"
	"os/exec"
	"runtime"
	"sort"
	"strings"
	"sync"
	"time"

	"github.com/tmaxmax/go-sse/vrt"

	"verif/ev"
)

type Scenario struct {
	Name  string
	Body  func()
	Check func(r *vrt.Result) string
	// Sig maps a violation to a stable signature (used for the known-findings list).
	Sig func(r *vrt.Result, msg string) string
	// Summary describes what a completed execution showed; distinct summaries are the distinct outcomes.
	Summary func(r *vrt.Result) string
	Opts    vrt.Options
}

type Check struct {
	ID          string
	Level       string
	Rule        string
	Assumptions []string
	Scenarios   func(tier string) []Scenario
	// Budget in seconds for the whole check, per tier.
	QuickBudget, ThoroughBudget int
}

type scenResult struct {
	Name      string         `json:"name"`
	Stats     vrt.Stats      `json:"stats"`
	Err       string         `json:"err,omitempty"`
	Violation *violationJSON `json:"violation,omitempty"`
	KnownHits map[string]int `json:"known_hits,omitempty"`
	Samples   []vrt.Sample   `json:"samples,omitempty"`
	WallS     float64        `json:"wall_s"`
}

type violationJSON struct {
	Msg       string   `json:"msg"`
	Sig       string   `json:"sig"`
	Choices   []int    `json:"choices"`
	Trace     []string `json:"trace"`
	Confirmed bool     `json:"confirmed"`
}

type replayFile struct {
	Property string   `json:"property"`
	Scenario string   `json:"scenario"`
	Tier     string   `json:"tier"`
	Choices  []int    `json:"choices"`
	Msg      string   `json:"violation"`
	Sig      string   `json:"signature"`
	Trace    []string `json:"trace"`
	How      string   `json:"how_to_replay"`
}

func defaultSig(r *vrt.Result, msg string) string {
	l := strings.SplitN(msg, "\n", 2)[0]
	if len(l) > 120 {
		l = l[:120]
	}
	return l
}

// Main runs the check according to the command line (after the property id was consumed by the caller).
func Main(c *Check, args []string) int {
	fs := flag.NewFlagSet(c.ID, flag.ExitOnError)
	tier := fs.String("tier", envOr("VERIF_TIER", "quick"), "quick or thorough")
	worker := fs.String("worker", "", "internal: i/n")
	replay := fs.String("replay", "", "replay file")
	only := fs.String("scenario", "", "run only scenarios whose name contains this")
	budget := fs.Int("budget", 0, "wall-clock budget in seconds (0: tier default)")
	procs := fs.Int("procs", 0, "worker processes (0: number of CPUs)")
	auxFile := fs.String("aux", "", "JSON file with the result of an auxiliary pass (merged into the evidence; its violations are reported)")
	selftest := fs.Bool("selftest", false, "compare the outcome sets with and without state-key pruning (use with --scenario)")
	_ = fs.Parse(args)
	if *tier != "thorough" {
		*tier = "quick"
	}
	scens := c.Scenarios(*tier)
	if *only != "" {
		var f []Scenario
		for _, s := range scens {
			if strings.Contains(s.Name, *only) {
				f = append(f, s)
			}
		}
		scens = f
	}
	if *budget == 0 {
		*budget = c.QuickBudget
		if *tier == "thorough" {
			*budget = c.ThoroughBudget
		}
		if *budget == 0 {
			*budget = 60
		}
	}
	if *replay != "" {
		return doReplay(c, scens, *replay)
	}
	if *selftest {
		return doSelfTest(c, scens)
	}
	if *worker != "" {
		return doWorker(c, scens, *worker, *budget)
	}
	auxPath = *auxFile
	return doParent(c, scens, *tier, *budget, *procs, args)
}

var auxPath string

// Aux is the result of an auxiliary pass run by ./check before the exhaustive part.
type Aux struct {
	Name       string `json:"name"`
	Ran        bool   `json:"ran"`
	Detail     string `json:"detail"`
	Violations []struct {
		Sig string `json:"sig"`
		Msg string `json:"msg"`
		Log string `json:"log"`
	} `json:"violations"`
}

func envOr(k, d string) string {
	if v := os.Getenv(k); v != "" {
		return v
	}
	return d
}

func explorerFor(c *Check, s *Scenario, known map[string]string) *vrt.Explorer {
	x := &vrt.Explorer{Name: s.Name, Body: s.Body, Opts: s.Opts, Check: s.Check, KeepGoing: false}
	sig := s.Sig
	if sig == nil {
		sig = defaultSig
	}
	x.Signature = sig
	x.Outcome = s.Summary
	x.Known = map[string]bool{}
	for k := range known {
		x.Known[k] = true
	}
	return x
}

func doWorker(c *Check, scens []Scenario, spec string, budget int) int {
	var i, n int
	fmt.Sscanf(spec, "%d/%d", &i, &n)
	known := ev.LoadKnown(c.ID)
	deadline := time.Now().Add(time.Duration(budget) * time.Second)
	out := bufio.NewWriter(os.Stdout)
	defer out.Flush()
	enc := json.NewEncoder(out)
	for k := range scens {
		if k%n != i {
			continue
		}
		s := &scens[k]
		t0 := time.Now()
		x := explorerFor(c, s, known)
		x.Deadline = deadline
		res := scenResult{Name: s.Name}
		if time.Now().After(deadline) {
			res.Stats.Exhaustive = false
			res.Err = ""
			res.Stats.ByOutcome = map[string]int{"skipped-budget": 1}
			_ = enc.Encode(&res)
			continue
		}
		if err := x.Explore(); err != nil {
			res.Err = err.Error()
		}
		res.Stats = x.Stats
		res.KnownHits = x.KnownHits
		res.Samples = x.Samples
		if v := x.Violation; v != nil {
			vj := &violationJSON{Msg: v.Msg, Sig: v.Sig, Choices: v.Choices}
			vj.Confirmed = x.Confirm(v, 5)
			vj.Trace = x.Replay(v.Choices).Trace
			res.Violation = vj
		}
		res.WallS = time.Since(t0).Seconds()
		_ = enc.Encode(&res)
		out.Flush()
	}
	return 0
}

func doParent(c *Check, scens []Scenario, tier string, budget, procs int, args []string) int {
	rep := ev.NewReport(c.ID, tier)
	n := procs
	if n <= 0 {
		n = runtime.NumCPU()
	}
	if n > len(scens) {
		n = len(scens)
	}
	if n == 0 {
		fmt.Fprintln(os.Stderr, "no scenarios")
		return 2
	}
	exe, _ := os.Executable()
	var mu sync.Mutex
	var results []scenResult
	var infra []string
	var wg sync.WaitGroup
	var hung []int
	for i := 0; i < n; i++ {
		wg.Add(1)
		go func(i int) {
			defer wg.Done()
			a := append([]string{c.ID}, args...)
			a = append(a, "--worker", fmt.Sprintf("%d/%d", i, n), "--tier", tier, "--budget", fmt.Sprint(budget))
			// a worker that is still running long after its budget sits in a step of the code under test that never
			// reaches another scheduling point (an infinite loop): killed and reported as a violation
			grace := time.Duration(3*budget+180) * time.Second
			wctx, cancel := context.WithTimeout(context.Background(), time.Duration(budget)*time.Second+grace)
			defer cancel()
			cmd := exec.CommandContext(wctx, exe, a...)
			cmd.Env = append(os.Environ(), "GOMAXPROCS=2")
			cmd.Stderr = os.Stderr
			outp, err := cmd.Output()
			mu.Lock()
			defer mu.Unlock()
			if wctx.Err() != nil {
				hung = append(hung, i)
				err = nil
			}
			dec := json.NewDecoder(strings.NewReader(string(outp)))
			for dec.More() {
				var r scenResult
				if derr := dec.Decode(&r); derr != nil {
					infra = append(infra, fmt.Sprintf("worker %d: bad output: %v", i, derr))
					break
				}
				results = append(results, r)
			}
			if err != nil {
				infra = append(infra, fmt.Sprintf("worker %d: %v", i, err))
			}
		}(i)
	}
	wg.Wait()
	if len(hung) > 0 {
		done := map[string]bool{}
		for _, r := range results {
			done[r.Name] = true
		}
		var missing []string
		for _, sc := range c.Scenarios(tier) {
			if !done[sc.Name] {
				missing = append(missing, sc.Name)
			}
		}
		results = append(results, scenResult{Name: "(no termination)", Violation: &violationJSON{
			Sig: "a step of the code under test does not return",
			Msg: fmt.Sprintf("worker(s) %v were still running long after the budget of %d s: some step of the code under test never reaches another scheduling point (infinite loop). Scenarios without a result: %v", hung, budget, missing)}})
	}
	sort.Slice(results, func(i, j int) bool { return results[i].Name < results[j].Name })

	var execs, completed, pruned, states, trans, outcomes, maxDepth, boundHits int
	exhaustive := true
	byOutcome := map[string]int{}
	var samples []any
	perScen := []map[string]any{}
	for _, r := range results {
		execs += r.Stats.Executions
		completed += r.Stats.Completed
		pruned += r.Stats.Pruned
		states += r.Stats.States
		trans += r.Stats.Transitions
		outcomes += r.Stats.Outcomes
		boundHits += r.Stats.BoundReached
		if r.Stats.MaxDepth > maxDepth {
			maxDepth = r.Stats.MaxDepth
		}
		for k, v := range r.Stats.ByOutcome {
			byOutcome[k] += v
		}
		if !r.Stats.Exhaustive && r.Violation == nil {
			exhaustive = false
		}
		if r.Err != "" {
			infra = append(infra, r.Name+": "+r.Err)
		}
		for sig, cnt := range r.KnownHits {
			for k := 0; k < cnt; k++ {
				rep.Add(sig, "", nil)
			}
		}
		if v := r.Violation; v != nil {
			if !v.Confirmed {
				infra = append(infra, r.Name+": violation did not reproduce identically 5 times: "+v.Msg)
				continue
			}
			rr := r
			rep.Add(v.Sig, fmt.Sprintf("scenario %s: %s\n%s", r.Name, v.Msg, strings.Join(tail(v.Trace, 40), "\n")), func() string {
				return ev.WriteReplay(c.ID, rr.Name, replayFile{Property: c.ID, Scenario: rr.Name, Tier: tier, Choices: v.Choices,
					Msg: v.Msg, Sig: v.Sig, Trace: v.Trace, How: fmt.Sprintf("./check %s --replay <this file>", c.ID)})
			})
		}
		if len(samples) < 4 && len(r.Samples) > 0 {
			// prefer an execution that is not the all-default schedule
			samples = append(samples, map[string]any{"scenario": r.Name, "execution": r.Samples[len(r.Samples)-1]})
		}
		perScen = append(perScen, map[string]any{"name": r.Name, "executions": r.Stats.Executions, "states": r.Stats.States,
			"outcomes": r.Stats.Outcomes, "exhaustive": r.Stats.Exhaustive, "wall_s": r.WallS})
	}
	if len(results) != len(scens) {
		infra = append(infra, fmt.Sprintf("%d scenarios planned, %d reported", len(scens), len(results)))
	}
	if len(perScen) > 400 {
		perScen = perScen[:400]
	}
	e := &ev.Evidence{PropertyID: c.ID, Tier: tier, Seed: ev.Seed(), Level: c.Level, WallS: time.Since(rep.Start).Seconds(),
		Violations: len(rep.Violations), Assumptions: c.Assumptions, KnownFindingsHit: rep.KnownHitList(),
		Coverage: ev.Coverage{
			"states": states, "transitions": trans, "traces_validated_against_impl": execs,
			"evaluations": execs, "distinct_nontrivial": outcomes,
			"rule":       c.Rule + " Every execution is a run of the real, instrumented implementation under the controlled scheduler; distinct_nontrivial counts distinct observation digests (per-thread logs + outcome) among completed executions, summed over scenarios.",
			"samples":    samples,
			"exhaustive": exhaustive,
			"scenarios":  len(scens), "executions_completed": completed, "executions_pruned_at_visited_state": pruned,
			"max_choice_depth": maxDepth, "alternatives_cut_by_bound": boundHits, "outcomes": byOutcome,
			"budget_s": budget, "per_scenario": perScen,
		}}
	if states == 0 {
		e.Coverage["states"] = execs // without pruning every execution is its own path of states
	}
	if auxPath != "" {
		var aux Aux
		if b, err := os.ReadFile(auxPath); err == nil && json.Unmarshal(b, &aux) == nil {
			e.Coverage["auxiliary_pass"] = map[string]any{"name": aux.Name, "ran": aux.Ran, "detail": aux.Detail, "violations": len(aux.Violations),
				"note": "auxiliary, free-running (sampling): it can only add alarms for real data races; the deciding step is the exhaustive exploration above"}
			for _, v := range aux.Violations {
				v := v
				rep.Add(v.Sig, v.Msg, func() string {
					return ev.WriteReplay(c.ID, "aux-"+aux.Name, map[string]any{"property": c.ID, "auxiliary_pass": aux.Name, "violation": v.Msg, "log": v.Log,
						"how_to_replay": "cd /verif && . ./env.sh && go test -race -count=1 ./racepass/"})
				})
			}
			e.Violations = len(rep.Violations)
		} else {
			infra = append(infra, "auxiliary pass result unreadable: "+auxPath)
		}
	}
	if err := e.Write(); err != nil {
		infra = append(infra, "evidence: "+err.Error())
	}
	fmt.Printf("%s %s: scenarios=%d executions=%d (completed %d, pruned %d) states=%d transitions=%d distinct-outcomes=%d exhaustive=%v outcomes=%v\n",
		c.ID, tier, len(scens), execs, completed, pruned, states, trans, outcomes, exhaustive, byOutcome)
	if len(infra) > 0 {
		for _, s := range infra {
			fmt.Println("INFRASTRUCTURE-ERROR:", s)
		}
		rep.Finish()
		return 2
	}
	return rep.Finish()
}

func tail(s []string, n int) []string {
	if len(s) > n {
		return s[len(s)-n:]
	}
	return s
}

func doReplay(c *Check, scens []Scenario, path string) int {
	b, err := os.ReadFile(path)
	if err != nil {
		fmt.Fprintln(os.Stderr, err)
		return 2
	}
	var rf replayFile
	if err := json.Unmarshal(b, &rf); err != nil {
		fmt.Fprintln(os.Stderr, err)
		return 2
	}
	if rf.Tier == "thorough" {
		scens = c.Scenarios("thorough")
	}
	for i := range scens {
		if scens[i].Name != rf.Scenario {
			continue
		}
		x := explorerFor(c, &scens[i], nil)
		r := x.Replay(rf.Choices)
		for _, l := range r.Trace {
			fmt.Println("  ", l)
		}
		fmt.Println("outcome:", r.Outcome, r.Msg)
		if msg := x.Judge(r); msg != "" {
			fmt.Printf("VIOLATION property=%s replay=%s\n  %s\n", c.ID, path, msg)
			return 1
		}
		fmt.Println("no violation on this schedule")
		return 0
	}
	fmt.Fprintln(os.Stderr, "scenario not found:", rf.Scenario)
	return 2
}

// NormSig is the default signature: the first line of the violation with thread/writer/message
// numbers normalised, plus (for crashes) the innermost go-sse frame.
func NormSig(r *vrt.Result, msg string) string {
	lines := strings.Split(msg, "\n")
	l := lines[0]
	var b strings.Builder
	for i := 0; i < len(l); i++ {
		ch := l[i]
		if ch >= '0' && ch <= '9' {
			if b.Len() > 0 && strings.HasSuffix(b.String(), "N") {
				continue
			}
			b.WriteByte('N')
			continue
		}
		b.WriteByte(ch)
	}
	sig := b.String()
	if r != nil && r.Outcome == vrt.Crash {
		for _, fl := range lines[1:] {
			if strings.Contains(fl, "go-sse.") && !strings.Contains(fl, "/vrt") {
				sig += " @ " + strings.TrimSpace(fl)
				break
			}
		}
	}
	if len(sig) > 200 {
		sig = sig[:200]
	}
	return sig
}

// doSelfTest validates state-key pruning: the set of distinct outcome summaries of a scenario must be the
// same whether or not executions are cut at visited states.
func doSelfTest(c *Check, scens []Scenario) int {
	bad := 0
	for i := range scens {
		s := &scens[i]
		if s.Summary == nil {
			continue
		}
		sets := [2]map[string]int{}
		var execs [2]int
		capped := false
		for k, prune := range []bool{false, true} {
			x := explorerFor(c, s, nil)
			x.Opts.Prune = prune
			x.KeepGoing = true
			x.OutcomeSet = map[string]int{}
			x.MaxExecs = 400000
			if err := x.Explore(); err != nil {
				fmt.Println("selftest", s.Name, "error:", err)
				bad++
			}
			if !x.Stats.Exhaustive {
				capped = true
			}
			sets[k] = x.OutcomeSet
			execs[k] = x.Stats.Executions
		}
		if capped {
			fmt.Printf("selftest %s: skipped (unpruned search exceeds the cap; %d executions)\n", s.Name, execs[0])
			continue
		}
		ok := len(sets[0]) == len(sets[1])
		for k := range sets[0] {
			if _, in := sets[1][k]; !in {
				ok = false
				fmt.Println("  outcome only without pruning:", k)
			}
		}
		for k := range sets[1] {
			if _, in := sets[0][k]; !in {
				ok = false
				fmt.Println("  outcome only with pruning:", k)
			}
		}
		fmt.Printf("selftest %s: unpruned %d executions / %d outcomes, pruned %d executions / %d outcomes: %v\n", s.Name, execs[0], len(sets[0]), execs[1], len(sets[1]), ok)
		if !ok {
			bad++
		}
	}
	if bad > 0 {
		return 1
	}
	return 0
}
