#!/bin/sh
# usage: tools/confirm_seed.sh <PROP> <N> <name>
# Confirms seed N of /tmp/seed-<PROP> in a scratch worktree: suite passes with the patch, demo fails with it, demo passes without.
# On success copies it to /verif/seeded/<name>/ (patch.diff, demo, notes.md) and writes confirm.log there.
. /verif/env.sh
P=$1; N=$2; NAME=$3
SRC=${SEEDSRC:-/tmp/seed-$P}
WT=/tmp/wtc-$NAME
git -C /repo worktree add -q --detach $WT HEAD || exit 2
trap 'git -C /repo worktree remove --force '$WT' 2>/dev/null' EXIT
LOG=$(mktemp)
cd $WT
demo=""
if [ -f $SRC/demo${N}_test.go ]; then demo=$SRC/demo${N}_test.go; fi
run_demo() {
  if [ -n "$demo" ]; then
    cp $demo $WT/zz_demo_test.go
    pkgline=$(grep -m1 '^package' $demo)
    tests=$(grep -o '^func Test[A-Za-z0-9_]*' $demo | sed 's/func //' | paste -sd'|')
    go test -vet=off -count=1 -run "^($tests)\$" . >>$LOG 2>&1; rc=$?
    rm -f $WT/zz_demo_test.go
    return $rc
  elif [ -d $SRC/demo$N ]; then
    mkdir -p $WT/cmd/zzdemo && cp $SRC/demo$N/*.go $WT/cmd/zzdemo/
    go run ./cmd/zzdemo >>$LOG 2>&1; rc=$?
    rm -rf $WT/cmd/zzdemo
    return $rc
  fi
  return 99
}
echo "== clean tree: demo must pass" >>$LOG
run_demo; c1=$?
git apply $SRC/patch$N.diff || { echo "patch does not apply"; exit 1; }
echo "== patched: existing suite must pass" >>$LOG
go build ./... >>$LOG 2>&1 && go test -vet=off -count=1 ./... >>$LOG 2>&1; c2=$?
echo "== patched: demo must fail" >>$LOG
run_demo; c3=$?
git checkout -- . 
echo "clean-demo rc=$c1 patched-suite rc=$c2 patched-demo rc=$c3"
if [ $c1 -eq 0 ] && [ $c2 -eq 0 ] && [ $c3 -ne 0 ] && [ $c3 -ne 99 ]; then
  D=/verif/seeded/$NAME; mkdir -p $D
  cp $SRC/patch$N.diff $D/patch.diff
  [ -n "$demo" ] && cp $demo $D/demo_test.go
  [ -d $SRC/demo$N ] && cp -r $SRC/demo$N $D/demo
  cp $SRC/notes$N.md $D/notes.md 2>/dev/null
  tail -c 3000 $LOG > $D/confirm.log
  echo "CONFIRMED -> $D"
else
  echo "NOT CONFIRMED"; tail -30 $LOG
fi
rm -f $LOG
