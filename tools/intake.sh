#!/bin/sh
# usage: tools/intake.sh <src prefix, e.g. /tmp/seed4-> <letter for patch1> <letter for patch2> <property ids...>
# Confirms the two seeds of each property, runs them against their property's quick check, updates RESULTS.tsv and meta.
PFX=$1; L1=$2; L2=$3; shift 3
cd /verif
for id in "$@"; do
  for n in 1 2; do
    l=$L1; [ $n = 2 ] && l=$L2
    nm=$id-$l
    [ -f $PFX$id/patch$n.diff ] || { echo "$nm: no patch"; continue; }
    r=$(SEEDSRC=$PFX$id tools/confirm_seed.sh $id $n $nm 2>&1 | tail -1)
    case "$r" in CONFIRMED*) ;; *) echo "$nm: $r"; continue;; esac
    t=$(tools/try_seed.sh $nm $id | tail -1)
    rc=$(echo "$t" | sed -n 's/.* vs [A-Z0-9]*: exit \([0-9]*\).*/\1/p'); sig=$(echo "$t" | sed -n 's/.*signature: //p' | tr -d '\n' | cut -c1-160)
    grep -v "^$nm	" seeded/RESULTS.tsv > /tmp/r.$$; printf '%s\t%s\t%s\t%s\n' "$nm" "$id" "$rc" "$sig" >> /tmp/r.$$; sort /tmp/r.$$ > seeded/RESULTS.tsv; rm -f /tmp/r.$$
    echo "$nm: confirmed, check exit $rc  $sig" | cut -c1-200
  done
done
python3 tools/mkseedmeta.py
