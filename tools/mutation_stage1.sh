#!/bin/sh
# usage: tools/mutation_stage1.sh <file relative to /repo> <mutant index>
# Builds and tests one generated mutant through a build overlay (/repo untouched). Prints one line:
#   <file> <index> <line> nocompile | killed-by-tests | survivor   <description>
. /verif/env.sh
F=$1; N=$2
D=$(mktemp -d /tmp/mut1.XXXXXX)
trap 'rm -rf $D' EXIT
info=$(/verif/bin/mutgen -file /repo/$F -list | awk -F'\t' -v n=$N '$1==n{print $2"\t"$3}')
/verif/bin/mutgen -file /repo/$F -n $N -out $D/m.go || exit 2
printf '{"Replace":{"/repo/%s":"%s/m.go"}}' "$F" "$D" > $D/ov.json
cd /repo
if ! go build -overlay $D/ov.json ./... >/dev/null 2>&1; then
  printf '%s\t%s\t%s\tnocompile\n' "$F" "$N" "$info"; exit 0
fi
ok=0
for try in 1 2; do
  if go test -overlay $D/ov.json -vet=off -count=1 -timeout 180s . ./internal/parser >/dev/null 2>&1; then ok=1; break; fi
done
if [ $ok = 1 ]; then st=survivor; else st=killed-by-tests; fi
printf '%s\t%s\t%s\t%s\n' "$F" "$N" "$info" "$st"
