#!/bin/sh
# usage: tools/try_patch.sh <patch file> <check id> [args]  -- like try_seed.sh but for an arbitrary patch
PATCH=$1; ID=$2; shift 2
TAG=$(basename $(dirname $PATCH))-$(basename $PATCH .diff)
WT=/tmp/wtp-$TAG-$ID-$$
OUT=/tmp/try-out-$TAG-$ID-$$
git -C /repo worktree add -q --detach $WT HEAD || exit 2
trap 'git -C /repo worktree remove --force '$WT' 2>/dev/null; rm -rf '$OUT EXIT
( cd $WT && git apply $PATCH ) || { echo "$TAG vs $ID: patch does not apply"; exit 2; }
mkdir -p $OUT
VERIF_REPO=$WT VERIF_ROOT=$OUT /verif/check $ID "$@" > /tmp/try-$TAG-$ID.log 2>&1; rc=$?
echo "$TAG vs $ID: exit $rc  $(grep -m1 -A2 '^VIOLATION\|^INFRA' /tmp/try-$TAG-$ID.log | sed 's/replay=[^ ]*//' | tr '\n' ' ' | cut -c1-400)"
