#!/bin/sh
# Runs every quick check on /repo's working tree (writing /verif/evidence/*.json), validates the evidence files
# against the schema, refreshes the coverage table in DESIGN.md. To be run on an otherwise idle machine before
# committing evidence: the committed files must come from the current quick configuration.
cd /verif
rc=0
for i in 01 02 03 04 05 06 07 08 09 10 11 12 13 14 15 16 17 18 19 20; do
  ./check C$i > /tmp/regen-C$i.log 2>&1; r=$?
  echo "C$i exit $r  $(grep -a -m1 "^C$i quick" /tmp/regen-C$i.log | cut -c1-160)"
  [ $r = 0 ] || rc=1
  grep -a -q "exhaustive=false" /tmp/regen-C$i.log && echo "  !! C$i hit its budget (exhaustive=false)"
done
find /verif/replays -type f -delete 2>/dev/null
python3-vt - <<'PY'
import json, jsonschema, glob
sch = json.load(open('/root/.vp/EVIDENCE.schema.json'))
for f in sorted(glob.glob('/verif/evidence/C*.json')):
    jsonschema.validate(json.load(open(f)), sch)
print('evidence files valid:', len(glob.glob('/verif/evidence/C*.json')))
PY
python3 tools/mktable.py > /dev/null
exit $rc
