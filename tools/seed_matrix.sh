#!/bin/sh
# Runs every seed in /verif/seeded against the quick check of the property it targets (and, with "all", every check).
# Output: /verif/seeded/RESULTS.tsv  (seed, check, exit code, first violation signature)
cd /verif
OUT=/verif/seeded/RESULTS.tsv
: > $OUT.tmp
for d in /verif/seeded/*/; do
  n=$(basename $d)
  [ -f $d/patch.diff ] || continue
  p=${n%%-*}
  r=$(tools/try_seed.sh $n $p 2>&1 | tail -1)
  rc=$(echo "$r" | sed -n 's/.*exit \([0-9]*\).*/\1/p')
  sig=$(echo "$r" | sed -n 's/.*signature: //p')
  printf '%s\t%s\t%s\t%s\n' "$n" "$p" "$rc" "$sig" >> $OUT.tmp
done
mv $OUT.tmp $OUT
