#!/usr/bin/env python3
"""Regenerates /verif/MANIFEST.json from the table below (keeps it valid at all times)."""
import json, os, sys
ROOT = os.path.dirname(os.path.dirname(os.path.abspath(__file__)))
props = [json.loads(l) for l in open(os.path.join(ROOT, 'properties.jsonl'))]

VS_NOTE = ("Trusted base (the Joe scenarios additionally run the scheduler's happens-before race detector over instrumented field and map accesses): the vxform source rewrite (mechanical, type-directed; unsupported constructs abort the check), the vrt shim "
           "semantics of channels/select/close/sync/timers (Go spec), and the small-scope hypothesis for the stated bounds. Schedules are "
           "explored at synchronisation-operation granularity under sequential consistency; plain-memory data races are reported by the "
           "scheduler's happens-before detector where it is switched on (C03, C06, C07, C13: fields of synchronised structs incl. channel-typed "
           "fields, and maps); weak-memory effects are outside this engine. State-key pruning is validated by ./check <ID> --selftest (outcome sets with/without pruning).")

def vs(design, text):
    return dict(engine="vsched", category="model_checking", design=design,
      technique="stateless model checking of the instrumented implementation: exhaustive DFS over all interleavings, select tie-breaks, map orders and fault positions, with state-key pruning",
      text=text, note=VS_NOTE)

SQ_NOTE = ("Trusted base: the reference model (a Go list), the reflective state hash (equal concrete private state + deterministic code => equal futures), "
           "and the small-scope hypothesis for the stated alphabets, capacities, depths and clock budgets. The real, uninstrumented package is executed; no model of it is involved.")

def sq(design, cat, technique, text, note=SQ_NOTE):
    return dict(engine="seqx", category=cat, design=design, technique=technique, text=text, note=note)

BFS = "explicit-state breadth-first search over operation histories of the real object (re-executed per state), states deduplicated by concrete-state hash, reference-model comparison of every probe in every state"

ENUM = "bounded-exhaustive enumeration of inputs x environment answers (read segmentations, early stops, faults) executed on the real code and compared with a Go reference model"

CHECKS = {
 "C01": sq("4/C01", "exploration", ENUM, "Every byte string of <= 4 (thorough 5) tokens over a 14-token alphabet (LF, CR, field names, colon, space, BOM, NUL, 0xFF, ...), every sequence of <= 3 (4) lines over a 15-line alphabet x {LF, CR, CRLF} with the last line terminated or not, and a size family around 4 KiB / 64 KiB, each through sse.Read and Connection.Connect, under all 2^(n-1) segmentations for short strings (single/pair cuts, byte-at-a-time beyond) and every early-stop position, compared with a byte-level transcription of the WHATWG algorithm."),
 "C02": sq("4/C02", "exploration", ENUM, "Every string of <= 4 (thorough 5) tokens over {LF, CR, a, colon, space, field look-alikes, BOM, NUL} in every role (data, comment, ID, type), every program of <= 3 (4) AppendData/AppendComment calls on a representative set, ID x Type x Retry crossed, and every ordered pair (triple) of representative messages concatenated: the wire text is decoded by a strict WHATWG reference and by sse.Read and must equal the expectation computed from the API calls with an independent line splitter; clones continued separately must not leak."),
 "C14": sq("4/C14", "exploration", ENUM, "Every string of <= 4 (5) tokens over {LF, CR, a, colon, space, NUL, 'data: x'} through every construction route (NewID/NewType, ID/Type, UnmarshalText incl. later reuse of the caller's buffer, UnmarshalJSON with both escape styles, Scan as string and []byte, the Last-Event-Id header given to Upgrade), non-string JSON documents / driver values, and every wire text of <= 5 (6) tokens through Message.UnmarshalText: IsSet implies no CR/LF, an input with CR/LF leaves the value unset (with an error where the route has one), and a message carrying the value decodes to exactly one event with no injected field."),
 "C15": sq("4/C15", "fault_enumeration", "fault enumeration: every Write call of the encoding x every short-write length, on the real WriteTo; plus bounded-exhaustive round-trip enumeration", "For every enumerated message (payload strings of <= 3 (4) tokens as data/comment; ID x type x retry x chunk shapes): UnmarshalText(MarshalText(m)) is compared field by field and by re-encoding, WriteTo/MarshalText/String byte-identical; and for EVERY Write call k of the encoding and EVERY j in [0, len] a writer accepting j bytes of the k-th write then failing: WriteTo must return that error, exactly the accepted byte count, a prefix of the encoding, and stop writing."),
 "C16": sq("4/C16", "fault_enumeration", "fault enumeration over the call log of a recording ResponseWriter: every Send/Flush sequence x writer shape x failure at every individual underlying Write (every short count) or flush", "Every sequence of <= 4 (5) Session operations {Send data message, Send id-only message, Send empty message, Flush} x 8 ResponseWriter shapes x a fault at EVERY underlying call (a failing Write with every short count, a failing FlushError), judged on the ordered call log: header set and flushed before the first body byte and never set again, body = concatenation of the encodings, Flush flushes, the writer's first error is what the caller gets. ServeHTTP x shapes x 7 Last-Event-Id header values x 8 OnSession behaviours x 4 provider behaviours."),
 "C20": sq("4/C20", "exploration", ENUM, "Limits 8/16/33/64 (thorough also 100/257), the default 64 KiB and an enlarged limit, through ReadConfig.MaxEventSize and both forms of Connection.Buffer; stream shapes (endless line / event / blank lines / comments, an event of size n at the start / middle / end, with CRLF, after b blank lines) with n swept over [M-4, M+4] and around 4096/65536; chunkings whole, 1, 3 bytes and a cut at M-1/M/M+1; a counting reader bounds what is pulled before the error, every delivered event must be byte-identical to the reference's."),
 "C19": sq("4/C19", "model_checking", "exhaustive enumeration of all operation sequences up to a depth on real Messages against a value model; repeated-Put histories on both replayers", "All sequences of <= 7 (8) operations {AppendData, AppendComment, set ID, Clone} x target over a family of up to three messages (clones of clones), each step compared with a value model built from copied slices; one message put 1..6 times through both replayers in both ID modes (incl. ring wrap-around): caller's message unchanged, copies independent, IDs consecutive and stable."),
 "C08": sq("4/C08", "model_checking", BFS, "All histories of valid/invalid Puts up to 4N+2 (thorough 6N+3) operations for capacities 2..4 (thorough ..5), both ID modes: the reachable concrete states of the ring buffer are enumerated completely (the state space closes: the frontier empties), and in each of them every Replay probe (every issued ID, never-issued, next-to-be-issued, unset x 4 topic sets x failing Send position) is compared with a list of the last N accepted events."),
 "C09": sq("4/C09", "model_checking", BFS, "All histories over {Put a, Put b, invalid Put, GC, advance 1 tick, advance TTL, 5 Puts, 9 Puts} up to depth 7 (thorough 10) with bounded clock advances and macro operations, TTL 2/3 ticks x 5 GCInterval settings x both ID modes, so the buffer grows 4-8-16-32, wraps and shrinks again; in every reachable state every probe is compared with a list model with per-entry expiry and every unexpired event must still be held."),
 "C18": sq("4/C18", "model_checking", BFS, "Same state spaces as C08 and C09; the invariant 'the set of *Message reachable from the replayer (reflective walk, slices to capacity) contains only the last N accepted / nothing expired right after a collection' is evaluated in every reachable state; plus a linear capacity sweep (N = 6..40, 64, 100) and, for what a reflective walk cannot see (a backing array resliced to a smaller capacity), a completely enumerated family of 252 (588) grow / partially expire / shrink / fully expire scripts whose expired messages must all be finalized by forced garbage collections after every collection."),
 "C03": vs("4/C03", "2-3 subscribers on disjoint/overlapping/default topics (one cancelled after noting which publishes had returned, or one failing), 2-3 publisher threads, fast and slow clients: ALL schedules at synchronisation granularity are executed on the real code; the oracle rebuilds Joe's serialisation order from the recording replayer and checks exactly-once, order, topic matching, completeness and Send-then-Flush on every execution."),
 "C04": vs("4/C04", "Real FiniteReplayer/ValidReplayer behind a recording wrapper, manual and automatic IDs, histories below/at/beyond capacity and across the ring's wrap point, every presentable ID (each buffered one, newest, evicted, never issued, next-to-be-issued, none), one or two resuming subscribers racing a publisher: ALL schedules; the Send sequence must equal [reference replay of the puts before the registration] ++ [matching puts after it], IDs identical live and replayed."),
 "C07": vs("4/C07", "Every multiset of up to 4 actors {Subscribe, Subscribe+cancel, Publish, 2xPublish, Shutdown, Shutdown(ctx)+cancel} with a Shutdown, Joe initialised before or by the racing calls, fast/slow clients, followed by late calls: ALL schedules; termination is decided by the scheduler's deadlock detector (no timeouts), return values by the oracle."),
 "C10": vs("4/C10", "The real Connect loop on a virtual clock with a transport that records header and request body of every attempt; 5 request-body kinds; inside each scenario the explorer enumerates EVERY script of attempt outcomes up to the bound (transport failure, rejected response, 200 + 10 streams ending cleanly or with a read error; longer scripts over a smaller alphabet). The expected header is a fold of the WHATWG reference over the script; non-resettable bodies must end Connect after exactly one (two) attempts with ErrNoGetBody / GetBody's error - an endless retry loop is caught by the step horizon."),
 "C11": vs("4/C11", "The real Connect loop on a virtual clock; response bodies = every distinct prefix of every string of <= 4 (5) tokens, ending cleanly, with a read error or with a cancellation at that read, whole or byte-at-a-time, x MaxRetries x validator verdict (body and ending are explorer choices); a second thread cancelling at EVERY possible moment (all interleavings incl. timer-vs-cancel); rejected responses and oversized events on bodies that never end (blocking is decided by the deadlock detector); transport errors that merely look like context errors; the same bodies through sse.Read."),
 "C12": vs("4/C12", "The real Connect loop on a virtual clock, single thread: 576 Backoff configurations (all combinations of the listed values); inside each the explorer enumerates EVERY history of attempt outcomes up to the bound (failure, connect+drop, server retry fields valid and invalid) and the random draws (median plus deviation-bounded extremes at every position). The closed-form schedule is compared with OnRetry's waits, the durations the timer was armed with and the virtual times of the attempts."),
 "C13": vs("4/C13", "Sequential: EVERY sequence of <= 5 (6) operations {subscribe a / b / unnamed / all, call any remover returned so far (repeated, stale), deliver an event of type '' / a / b / c} chosen by the explorer and executed between two events on the Connect goroutine (or all before Connect), against a list model of live subscriptions. Concurrent: Connect dispatching while threads subscribe, remove, remove twice, re-subscribe and call stale removers, fast and slow callbacks: ALL interleavings of the instrumented RWMutex operations and all map orders, with online oracles (no invocation after the remover returned; exactly once for callbacks live across the dispatch; stream order) and a happens-before data-race detector inside the scheduler (vector clocks over all shim operations, checked against instrumented field and map accesses in every schedule); a free-running go test -race pass is auxiliary."),
 "C17": vs("4/C17", "Three (four) subscribers with one failing at its k-th call, a publisher, and a replayer whose k-th Put/Replay errs or panics (all enumerated): ALL schedules, map orders exhaustively in the racing scenarios and deviation-bounded in the phased ones; the delivery oracle demands for the healthy subscribers exactly what C03 demands, as if the failing one did not exist."),
 "C05": vs("4/C05", "Whole stack in one process under the controlled scheduler: real Server + Joe + replayer and real Client/Connection, the transport runs ServeHTTP on a handler thread per attempt and pipes the ResponseWriter into the response body. After the client's first event the connection is severed after ANY byte of ANY write (one cut), or at every write boundary / mid-write with TWO cuts (first cut enumerated as scenarios, second by the explorer), or a killer thread ends started handlers (clean end of body); thread switches at blocking points (plus one preemption in the fault-free scenario), all select tie-breaks. Oracle: the client sees exactly the published sequence from its first event on; no panic; writes after ServeHTTP returned are failures; everything terminates."),
 "C06": dict(engine="vsched", category="model_checking", design="4/C06",
   technique="stateless model checking of the instrumented implementation: exhaustive DFS over all interleavings, select tie-breaks, map orders and fault positions, with state-key pruning",
   text="Every scenario (1-3 subscribers with failing/cancelling writers, cancellers, publisher, concurrent Shutdown, failing replayer) is explored over ALL schedules at synchronisation granularity; the oracle (no panic, no deadlock, no writer call after Subscribe returned, Subscribe returns the subscriber's own error) is evaluated on every execution. Within the scenario bounds this is a coverage statement, not a sample.",
   note=VS_NOTE),
}

checks = []
for p in props:
    c = CHECKS.get(p['id'])
    if not c: continue
    checks.append({
        "property_id": p['id'],
        "quick_cmd": "./check %s --tier quick" % p['id'],
        "thorough_cmd": "./check %s --tier thorough" % p['id'],
        "evidence_file": "/verif/evidence/%s.json" % p['id'],
        "replay_cmd_template": "./check %s --replay {path}" % p['id'],
        "engine": c['engine'],
        "level_claimed": {"category": c['category'], "text": c['text'] + " The exact alphabets, scenario families and bounds of the current build are in the `rule` field of the evidence file and in the table of DESIGN.md section 4.", "design_ref": "DESIGN.md section " + c['design']},
        "level_note": c['note'],
        "technique": c['technique'],
    })
na = [{"property_id": p['id'], "reason": "check not built yet (construction in progress; see DESIGN.md section 10)"} for p in props if p['id'] not in CHECKS]
m = {
 "version": 1,
 "setup_cmd": "./setup.sh",
 "hooks": {"guard": "verif",
           "enable": "no hook commits: tools/vxform instruments package sse from /repo's working tree at check time and the result is applied with `go build -overlay`; the build tag `verif` is reserved and unused",
           "baseline_off_cmd": "cd /repo && GOFLAGS=-mod=mod GOPROXY=off GOSUMDB=off GOTOOLCHAIN=local go test -json -vet=off -count=1 -timeout 25m ./...",
           "source_commits": [], "add_only": True},
 "engines": [
   {"name": "vsched", "path": "vrt/ tools/vxform/ vs/", "serves_properties": [k for k, v in CHECKS.items() if v['engine'] == 'vsched'],
    "kind_free_text": "controlled-scheduler stateless model checker for the real code: source-to-source instrumentation (overlay) + cooperative scheduler + DFS over choice lists with state-key pruning, deviation bounds, virtual time"},
   {"name": "seqx", "path": "sq/", "serves_properties": [k for k, v in CHECKS.items() if v['engine'] == 'seqx'],
    "kind_free_text": "bounded-exhaustive enumeration of inputs / operation sequences / environment answers against Go reference models, explicit-state search with concrete-state hashing"},
 ],
 "checks": checks,
 "not_applicable": na,
 "notes": "All checks run the real implementation from /repo's working tree. Exit 0 = held, 1 = VIOLATION, 2 = infrastructure error (no verdict). known_findings.json lists genuine defects (fixed ones suppress nothing).",
}
if not na: del m["not_applicable"]
json.dump(m, open(os.path.join(ROOT, 'MANIFEST.json'), 'w'), indent=1)
print("checks:", len(checks), "not_applicable:", len(na))
