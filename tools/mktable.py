#!/usr/bin/env python3
"""Prints the coverage table of DESIGN.md section 4.2 from the committed evidence files and rewrites that section in place."""
import json, re
rows = []
for i in range(1, 21):
    pid = f'C{i:02d}'
    e = json.load(open(f'/verif/evidence/{pid}.json'))
    c = e['coverage']
    def g(k):
        v = c.get(k)
        return f'{v:,}'.replace(',', ' ') if isinstance(v, int) else ('' if v is None else str(v))
    work = g('evaluations')
    rows.append(f"| {pid} | {e['level']} | {work} | {g('states')} | {g('transitions')} | {g('scenarios')} | {g('distinct_nontrivial')} | {c.get('exhaustive')} | {e['wall_s']:.0f} s |")
table = "| id | level | evaluations / executions | states | transitions | scenarios | distinct non-trivial | exhaustive | quick wall (16 cores) |\n|---|---|---|---|---|---|---|---|---|\n" + "\n".join(rows)
p = '/verif/DESIGN.md'
s = open(p).read()
begin, end = '<!-- coverage-table:begin -->', '<!-- coverage-table:end -->'
if begin in s:
    s = re.sub(re.escape(begin) + '.*?' + re.escape(end), begin + '\n' + table + '\n' + end, s, flags=re.S)
    open(p, 'w').write(s)
print(table)
