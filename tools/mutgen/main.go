// Command mutgen enumerates single-edit mutants of a Go source file (go/ast, no type information):
//
//	mutgen -file f.go -list            prints "index<TAB>line<TAB>description" for every mutant
//	mutgen -file f.go -n K -out g.go   writes mutant K to g.go
//
// Operators: relational/arithmetic/logical operator swaps, negated if-conditions, integer literals +-1,
// true<->false, removed statements (assignments, calls, inc/dec, defer, go), removed else branches,
// break<->continue, and "return early" variants are NOT produced (they rarely compile to something subtle).
// The mutants are used by tools/mutation_run.sh: those that compile and pass the repository's own tests are
// run against the checks of the properties anchored in that file.
package main

import (
	"bytes"
	"flag"
	"fmt"
	"go/ast"
	"go/parser"
	"go/printer"
	"go/token"
	"os"
	"strconv"
)

type mutant struct {
	line  int
	desc  string
	apply func() (undo func())
}

var swaps = map[token.Token][]token.Token{
	token.EQL:  {token.NEQ},
	token.NEQ:  {token.EQL},
	token.LSS:  {token.LEQ, token.GTR},
	token.LEQ:  {token.LSS},
	token.GTR:  {token.GEQ, token.LSS},
	token.GEQ:  {token.GTR},
	token.ADD:  {token.SUB},
	token.SUB:  {token.ADD},
	token.MUL:  {token.QUO},
	token.LAND: {token.LOR},
	token.LOR:  {token.LAND},
}

func main() {
	file := flag.String("file", "", "source file")
	list := flag.Bool("list", false, "list mutants")
	n := flag.Int("n", -1, "mutant index")
	out := flag.String("out", "", "output file")
	flag.Parse()
	fset := token.NewFileSet()
	f, err := parser.ParseFile(fset, *file, nil, parser.ParseComments)
	if err != nil {
		fmt.Fprintln(os.Stderr, err)
		os.Exit(2)
	}
	var ms []mutant
	add := func(pos token.Pos, desc string, apply func() func()) {
		ms = append(ms, mutant{fset.Position(pos).Line, desc, apply})
	}
	// statement lists, for removals
	var lists []*[]ast.Stmt
	ast.Inspect(f, func(nd ast.Node) bool {
		switch x := nd.(type) {
		case *ast.BlockStmt:
			lists = append(lists, &x.List)
		case *ast.CaseClause:
			lists = append(lists, &x.Body)
		case *ast.CommClause:
			lists = append(lists, &x.Body)
		}
		return true
	})
	for _, lp := range lists {
		lp := lp
		for i, st := range *lp {
			i, st := i, st
			removable := false
			what := ""
			switch s := st.(type) {
			case *ast.AssignStmt:
				if s.Tok != token.DEFINE {
					removable, what = true, "assignment"
				}
			case *ast.ExprStmt:
				removable, what = true, "call"
			case *ast.IncDecStmt:
				removable, what = true, "inc/dec"
			case *ast.DeferStmt:
				removable, what = true, "defer"
			case *ast.GoStmt:
				removable, what = true, "go statement"
			case *ast.BranchStmt:
				if s.Label == nil && (s.Tok == token.BREAK || s.Tok == token.CONTINUE) {
					s := s
					to := token.CONTINUE
					if s.Tok == token.CONTINUE {
						to = token.BREAK
					}
					add(s.Pos(), fmt.Sprintf("%s -> %s", s.Tok, to), func() func() {
						old := s.Tok
						s.Tok = to
						return func() { s.Tok = old }
					})
				}
			}
			if removable {
				add(st.Pos(), "remove "+what, func() func() {
					old := (*lp)[i]
					(*lp)[i] = &ast.EmptyStmt{Semicolon: old.Pos(), Implicit: false}
					return func() { (*lp)[i] = old }
				})
			}
		}
	}
	ast.Inspect(f, func(nd ast.Node) bool {
		switch x := nd.(type) {
		case *ast.BinaryExpr:
			for _, to := range swaps[x.Op] {
				add(x.OpPos, fmt.Sprintf("%s -> %s", x.Op, to), func() func() {
					old := x.Op
					x.Op = to
					return func() { x.Op = old }
				})
			}
		case *ast.IfStmt:
			add(x.Cond.Pos(), "negate if condition", func() func() {
				old := x.Cond
				x.Cond = &ast.UnaryExpr{Op: token.NOT, X: &ast.ParenExpr{X: old}}
				return func() { x.Cond = old }
			})
			if x.Else != nil {
				add(x.Else.Pos(), "remove else branch", func() func() {
					old := x.Else
					x.Else = nil
					return func() { x.Else = old }
				})
			}
		case *ast.BasicLit:
			if x.Kind == token.INT {
				if v, err := strconv.ParseInt(x.Value, 0, 64); err == nil {
					for _, d := range []int64{1, -1} {
						x, nv := x, v+d
						if nv < 0 {
							continue
						}
						add(x.Pos(), fmt.Sprintf("%d -> %d", v, nv), func() func() {
							old := x.Value
							x.Value = strconv.FormatInt(nv, 10)
							return func() { x.Value = old }
						})
					}
				}
			}
		case *ast.Ident:
			if x.Name == "true" || x.Name == "false" {
				x := x
				to := "false"
				if x.Name == "false" {
					to = "true"
				}
				add(x.Pos(), x.Name+" -> "+to, func() func() {
					old := x.Name
					x.Name = to
					return func() { x.Name = old }
				})
			}
		}
		return true
	})
	if *list {
		for i, m := range ms {
			fmt.Printf("%d\t%d\t%s\n", i, m.line, m.desc)
		}
		return
	}
	if *n < 0 || *n >= len(ms) {
		fmt.Fprintln(os.Stderr, "mutant index out of range")
		os.Exit(2)
	}
	undo := ms[*n].apply()
	var buf bytes.Buffer
	if err := (&printer.Config{Mode: printer.UseSpaces | printer.TabIndent, Tabwidth: 8}).Fprint(&buf, fset, f); err != nil {
		fmt.Fprintln(os.Stderr, err)
		os.Exit(2)
	}
	undo()
	if err := os.WriteFile(*out, buf.Bytes(), 0o644); err != nil {
		fmt.Fprintln(os.Stderr, err)
		os.Exit(2)
	}
}
