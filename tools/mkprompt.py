#!/usr/bin/env python3
"""Writes the task text for a seeding sub-agent: tools/mkprompt.py <round> <property id>  -> /tmp/agent<round>-prompt-<id>.txt
The agent gets ONLY the property's text, its own scratch worktree /tmp/wt<round>-<id> and the titles of earlier seeds."""
import json, sys, glob, os
rnd, pid = sys.argv[1], sys.argv[2]
prop = None
for l in open('/verif/properties.jsonl'):
    p = json.loads(l)
    if p['id'] == pid:
        prop = p
titles = []
for d in sorted(glob.glob(f'/verif/seeded/{pid}-*/')):
    f = os.path.join(d, 'notes.md')
    if os.path.exists(f):
        for line in open(f):
            if line.strip():
                titles.append(line.strip().lstrip('# ').strip())
                break
wt, out = f'/tmp/wt{rnd}-{pid}', f'/tmp/seed{rnd}-{pid}'
text = f"""You are helping to evaluate a verification effort by seeding a realistic defect into a Go library.

The library is tmaxmax/go-sse (server-sent events: parser/encoder, HTTP client with reconnect/backoff, a channel based pub/sub provider "Joe" with replay buffers). You have your OWN scratch git worktree of it at {wt} . Work ONLY inside {wt} and {out} . Do NOT read, list or modify /verif, and do NOT touch /repo (never cd there, never run git commands against it other than inside your worktree). Do not commit anything.

Every Go command needs these environment variables (there is no network):
  export GOFLAGS=-mod=mod GOPROXY=off GOSUMDB=off GOTOOLCHAIN=local

The semantic property that the library is supposed to guarantee:

Property {pid}: {prop['title']}

Statement: {prop['statement']}

Quantified over: {prop['quantifier']['text']}

YOUR TASK: produce TWO different, independent changes to the library's non-test source code (each in its own patch) that BREAK this property, while
  (a) the library still compiles, and
  (b) the library's existing test suite still passes with the change:  cd {wt} && go test -vet=off -count=1 ./...   (run it, several times if a test is timing dependent; it must pass - TestJoe_Shutdown and a few other tests with millisecond timeouts are flaky on this busy machine even on the clean tree: re-run, and judge by whether failures correlate with your change), and
  (c) the change is REALISTIC - the kind of slip a maintainer could make in a refactoring, a bug fix for something else, a new small feature or an "optimisation", not an obviously malicious edit, and
  (d) it needs something SPECIFIC to manifest: a particular interleaving, a fault at a particular point, a multi-step sequence of operations, an unusual input or configuration, or two cooperating sites that each look fine alone. Ordinary everyday use of the library should NOT expose it at once. Make the two changes differ in mechanism, and each should break a different clause of the property if possible.

For EACH of the two changes (N = 1, 2) deliver in {out}/ :
  - patchN.diff : output of 'git diff' in the worktree with only that change applied (so 'git apply patchN.diff' on a clean tree reproduces it). Only non-test library files may be modified by the patch.
  - demoN_test.go : a self-contained Go test file (package sse_test or package sse, to be dropped into the root of the worktree) - or demoN/main.go, a small program - that demonstrates the violation: it FAILS (or exits non-zero) with the change applied and PASSES on the clean tree. If the violation needs a particular interleaving, make the demonstration deterministic enough to fail reliably (e.g. by blocking a MessageWriter / Replayer / io.Reader at the right moment with channels, or by looping until it happens with a generous bound), and say how reliable it is.
  - notesN.md : first line = a one-line title of the change; then which clause of the property is broken, what exactly is needed for it to manifest (schedule / fault / input / sequence), and the exact commands you ran with their results (existing suite passes with the patch; demo fails with the patch; demo passes without it).
Leave the worktree CLEAN at the end (git -C {wt} checkout -- . ; remove untracked files you added there). Verify each patch applies to a clean tree with 'git apply --check'.

Read the library's source in the worktree to find good places. Be concrete and verify everything by running it. Your final answer should be a short summary of the two changes and whether all verifications succeeded.

IMPORTANT ADDITIONS FOR THIS ROUND:
- These changes have ALREADY been produced by others for this property (titles of their notes):
""" + "".join(f"  - {t}\n" for t in titles) + f"""  Yours must differ from ALL of them in mechanism AND location. Read the list carefully and pick clauses / code paths / configurations / API entry points that none of them touches. Look at EVERY sentence of the property statement and at every exported function, option and struct field that takes part in it - including the rarely used ones - and prefer what the list above leaves untouched.
- Strongly prefer one of these styles: (a) a plausible "bug fix" or small feature for something unrelated that has this property as collateral damage; (b) a change spread over TWO functions or files that each look fine alone; (c) a lifecycle / ordering slip that only shows after a particular multi-step history or interleaving, or only on the second use of an object; (d) a boundary value, an error path or a rarely used configuration option; (e) an interaction with the standard library's documented behaviour (bufio.Scanner, net/http, context, time, sync) that is easy to get wrong.
- Make the changes SUBTLE: they should survive a casual code review, and the existing tests must keep passing.
- Do not use 'git stash'. Keep temporary files inside {out} only. The machine is busy with other jobs: be patient with slow commands and do not run stress loops longer than a minute.
"""
open(f'/tmp/agent{rnd}-prompt-{pid}.txt', 'w').write(text)
print(len(titles), 'earlier seeds listed for', pid)
