#!/bin/sh
# usage: tools/try_seed.sh <seed name> <check id> [extra check args]   -- applies /verif/seeded/<name>/patch.diff to /repo, runs the check, reverts
NAME=$1; ID=$2; shift 2
cd /repo && git apply /verif/seeded/$NAME/patch.diff || exit 2
cd /verif && ./check $ID "$@" > /tmp/try-$NAME-$ID.log 2>&1; rc=$?
git -C /repo checkout -- . && git -C /repo clean -fdq
echo "$NAME vs $ID: exit $rc  $(grep -m1 -A1 '^VIOLATION' /tmp/try-$NAME-$ID.log | tr '\n' ' ' | cut -c1-260)"
