#!/bin/sh
# usage: tools/try_seed.sh <seed name> <check id> [extra check args]
# Applies /verif/seeded/<name>/patch.diff to a scratch worktree of /repo, runs the check against that copy
# (VERIF_REPO; /repo itself stays untouched), removes the worktree.
NAME=$1; ID=$2; shift 2
WT=/tmp/wts-$NAME-$ID-$$
OUT=/tmp/try-out-$NAME-$ID-$$
git -C /repo worktree add -q --detach $WT HEAD || exit 2
trap 'git -C /repo worktree remove --force '$WT' 2>/dev/null; rm -rf '$OUT EXIT
( cd $WT && git apply /verif/seeded/$NAME/patch.diff ) || { echo "$NAME vs $ID: patch does not apply"; exit 2; }
mkdir -p $OUT
VERIF_REPO=$WT VERIF_ROOT=$OUT /verif/check $ID "$@" > /tmp/try-$NAME-$ID.log 2>&1; rc=$?
echo "$NAME vs $ID: exit $rc  $(grep -m1 -A1 '^VIOLATION' /tmp/try-$NAME-$ID.log | sed 's/replay=[^ ]*//' | tr '\n' ' ' | cut -c1-240)"
