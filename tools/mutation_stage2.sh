#!/bin/sh
# usage: tools/mutation_stage2.sh <stage-1 results file> <output file>
# Runs every surviving mutant against the quick checks of the properties anchored in its file (cheapest first,
# stopping at the first check that reports a violation) through VERIF_REPO; /repo is never touched.
. /verif/env.sh
IN=$1; OUT=$2
WT=/tmp/wtmut-$$
git -C /repo worktree add -q --detach $WT HEAD || exit 2
trap 'git -C /repo worktree remove --force '$WT' 2>/dev/null; rm -rf /tmp/mutout-'$$ EXIT
checks_for() {
  case $1 in
    joe.go) echo "C07 C06 C17 C03 C04" ;;
    replay.go) echo "C08 C19 C18 C04 C09" ;;
    client.go) echo "C11 C10 C12" ;;
    client_connection.go) echo "C10 C11 C13 C20 C12" ;;
    event.go) echo "C10 C11 C20 C02 C01 C13" ;;
    message.go) echo "C14 C15 C19 C02" ;;
    message_fields.go) echo "C14 C15 C02" ;;
    session.go) echo "C16 C14" ;;
    server.go) echo "C16" ;;
    internal/parser/*) echo "C14 C20 C11 C15 C02 C01" ;;
  esac
}
grep -P '\tsurvivor$' $IN | while IFS="$(printf '\t')" read F N LINE DESC ST; do
  if grep -q -P "^$F\t$N\t" $OUT 2>/dev/null; then continue; fi
  /verif/bin/mutgen -file /repo/$F -n $N -out $WT/$F || continue
  res="undetected"; by=""
  for c in $(checks_for $F); do
    mkdir -p /tmp/mutout-$$
    VERIF_REPO=$WT VERIF_ROOT=/tmp/mutout-$$ /verif/check $c > /tmp/mutout-$$/log 2>&1; rc=$?
    if [ $rc = 1 ]; then res="detected"; by="$c $(grep -m1 'signature:' /tmp/mutout-$$/log | sed 's/.*signature: //' | cut -c1-120)"; break; fi
    if [ $rc != 0 ]; then res="infra$rc"; by="$c $(tail -1 /tmp/mutout-$$/log | cut -c1-120)"; break; fi
  done
  printf '%s\t%s\t%s\t%s\t%s\t%s\n' "$F" "$N" "$LINE" "$DESC" "$res" "$by" >> $OUT
  git -C $WT checkout -- . 
done
