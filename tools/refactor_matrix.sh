#!/bin/sh
# Re-runs the false-alarm corpus: every behaviour-preserving refactoring against every check whose property
# touches the refactored code. Output: refactorings/RESULTS.tsv (patch, check, exit code, first lines on failure).
cd /verif
OUT=refactorings/RESULTS.tsv
: > $OUT.tmp
run() { p=$1; shift; for c in "$@"; do r=$(tools/try_patch.sh /verif/refactorings/$p/patch.diff $c 2>&1 | grep -a -m1 ' vs .*: '); rc=$(echo "$r" | sed -n 's/.*exit \([0-9]*\).*/\1/p'); printf '%s\t%s\t%s\t%s\n' "$p" "$c" "$rc" "$(echo "$r" | cut -c1-300 | sed 's/.*exit [0-9]* *//')" >> $OUT.tmp; done; }
run r1-1 C08 C09 C18 C04 C19
run r1-2 C03 C04 C06 C07 C17 C05
run r1-3 C08 C09 C18 C04 C19
run r2-1 C13 C01
run r2-2 C12 C10 C11 C05
run r2-3 C01 C20 C10 C11
run r3-1 C01 C20 C11 C15 C14 C02
run r3-2 C02 C14 C15 C19 C16
run r3-3 C16 C14 C05 C07
# second corpus: CORRECT implementations of the optimisations the seeds got wrong
run r4-1 C03 C06 C07 C17 C04 C05
run r4-2 C03 C06 C07 C17 C04 C05
run r4-3 C08 C09 C18 C04 C19 C05
run r5-1 C10 C11 C12 C13 C01 C05 C20
run r5-2 C10 C11 C12 C13 C01 C05 C20
run r5-3 C10 C11 C12 C13 C01 C05 C20
run r6-1 C15 C02 C19 C16 C17
run r6-2 C01 C14 C02 C15 C20 C11 C19
run r6-3 C15 C16 C19 C02 C17 C05
run r7-1 C09 C18 C04 C08 C05 C07 C06
run r7-2 C08 C09 C18 C04 C19 C05
run r7-3 C03 C04 C17 C06 C07 C08 C09 C18 C05
run r8-1 C01 C02 C10 C11 C20 C05 C13
run r8-2 C01 C20 C11 C02 C05 C10
run r8-3 C11 C10 C12 C13 C05
run r9-1 C02 C15 C19 C14 C16 C17 C05
run r9-2 C14 C15 C16 C02 C05 C17 C07
run r9-3 C14 C02 C15 C16
mv $OUT.tmp $OUT
awk -F'\t' '$3!=0' $OUT
