#!/usr/bin/env python3
"""Generates the hand-written mutants planned in DESIGN.md round 0 as patches in /verif/mutants/ (one edit each)."""
import os, subprocess, sys
WT = '/tmp/wt-mut'
OUT = '/verif/mutants'
M = [
 # name, check, file, old, new
 ("C01-many-spaces", "C01", "internal/parser/field_parser.go", 'if c != "" && c[0] == \' \' {\n\t\treturn c[1:]\n\t}', 'for c != "" && c[0] == \' \' {\n\t\tc = c[1:]\n\t}'),
 ("C01-type-not-reset", "C01", "event.go", '\t\t\t\t\tsb.Reset()\n\t\t\t\t\ttyp = ""\n', '\t\t\t\t\tsb.Reset()\n'),
 ("C01-crlf-not-completed", "C01", "internal/parser/parser.go", "if advance < l && data[advance-1] == '\\r' && data[advance] == '\\n' {\n\t\t\tadvance++\n\t\t}", "if false && advance < l && data[advance-1] == '\\r' && data[advance] == '\\n' {\n\t\t\tadvance++\n\t\t}"),
 ("C01-id-nul-accepted", "C01", "event.go", 'if strings.IndexByte(f.Value, 0) != -1 {\n\t\t\t\t\tbreak\n\t\t\t\t}\n\n\t\t\t\tlastEventID = f.Value', 'lastEventID = f.Value'),
 ("C02-split-at-lf-only", "C02", "message.go", "content, c, _ = parser.NextChunk(c)", "if i := strings.IndexByte(c, '\\n'); i >= 0 {\n\t\t\t\tcontent, c = c[:i], c[i+1:]\n\t\t\t} else {\n\t\t\t\tcontent, c = c, \"\"\n\t\t\t}"),
 ("C02-blank-line-always", "C02", "message.go", "\tif n == 0 {\n\t\treturn 0, nil\n\t}\n\to, err := w.Write(newline)", "\to, err := w.Write(newline)"),
 ("C03-break-after-failure", "C03", "joe.go", "\t\t\t\t\t\tdone <- err\n\t\t\t\t\t\tj.removeSubscriber(done)\n", "\t\t\t\t\t\tdone <- err\n\t\t\t\t\t\tj.removeSubscriber(done)\n\t\t\t\t\t\tbreak\n"),
 ("C03-send-per-topic", "C03", "joe.go", "\t\t\t\tif topicsIntersect(sub.Topics, msg.topics) {\n\t\t\t\t\terr := sub.Client.Send(msg.message)", "\t\t\t\tfor n := countCommon(sub.Topics, msg.topics); n > 0; n-- {\n\t\t\t\t\terr := sub.Client.Send(msg.message)"),
 ("C04-original-fanned-out", "C04", "joe.go", "\t\t\t\t} else if m != nil {\n\t\t\t\t\tmsg.message = m\n\t\t\t\t}", "\t\t\t\t} else if m != nil {\n\t\t\t\t\t_ = m\n\t\t\t\t}"),
 ("C05-upgrade-ignores-header", "C05", "session.go", 'if h := r.Header[headerLastEventID]; len(h) != 0 && h[0] != "" {', 'if h := r.Header[headerLastEventID]; false && len(h) != 0 && h[0] != "" {'),
 ("C06-failed-subscriber-kept", "C06", "joe.go", "\t\t\t\t\t\tdone <- err\n\t\t\t\t\t\tj.removeSubscriber(done)\n", "\t\t\t\t\t\tdone <- err\n"),
 ("C07-close-not-deferred", "C07", "joe.go", "\tdefer j.closeSubscribers()\n", "\t_ = j.closeSubscribers\n"),
 ("C07-publish-ignores-done", "C07", "joe.go", "\tselect {\n\tcase j.message <- pub:\n\t\treturn <-errs\n\tcase <-j.done:\n\t\treturn ErrProviderClosed\n\t}", "\tj.message <- pub\n\treturn <-errs"),
 ("C08-each-one-late", "C08", "replay.go", "\t\t\tfor i := startAt; i < q.tail; i++ {", "\t\t\tfor i := startAt + 1; i < q.tail; i++ {"),
 ("C08-enqueue-wrap", "C08", "replay.go", "\tif q.tail == len(q.buf) {\n\t\tq.tail = 0\n\t\tif overwritten {\n\t\t\tq.head = 0\n\t\t}\n\t}", "\tif q.tail == len(q.buf) {\n\t\tq.tail = 0\n\t\t_ = overwritten\n\t}"),
 ("C09-gc-before", "C09", "replay.go", "\t\tif e.exp.After(now) {\n\t\t\tbreak\n\t\t}\n\n\t\tv.messages.dequeue()", "\t\tif !e.exp.Before(now) {\n\t\t\tbreak\n\t\t}\n\n\t\tv.messages.dequeue()"),
 ("C09-no-expiry-filter", "C09", "replay.go", "if m.exp.After(now) && topicsIntersect(subscription.Topics, m.topics) {", "if now.IsZero() || topicsIntersect(subscription.Topics, m.topics) {"),
 ("C10-header-not-deleted", "C10", "client_connection.go", '\t\tc.request.Header.Del("Last-Event-ID")\n', '\t\t_ = c.request\n'),
 ("C10-id-before-dispatch", "C10", "client_connection.go", "\t\tc.lastEventID = e.LastEventID\n\t\tc.dispatch(e)", "\t\tc.dispatch(e)\n\t\tc.lastEventID = e.LastEventID"),
 ("C12-retries-not-reset", "C12", "client.go", "\tc.numRetries = 0\n\tc.start = time.Now()", "\tc.start = time.Now()"),
 ("C12-cap-ignored", "C12", "client.go", "\tif maxInterval > 0 && float64(current) >= float64(maxInterval)/mul {\n\t\treturn maxInterval\n\t}\n", ""),
 ("C13-remover-deletes-type", "C13", "client_connection.go", "\t\tdelete(c.callbacks[event], id)\n\t\tif len(c.callbacks[event]) == 0 {\n\t\t\tdelete(c.callbacks, event)\n\t\t}", "\t\tdelete(c.callbacks, event)"),
 ("C13-dispatch-also-empty-type", "C13", "client_connection.go", "\tfor _, cb := range c.callbacks[ev.Type] {\n\t\tcb(ev)\n\t}", "\tfor _, cb := range c.callbacks[ev.Type] {\n\t\tcb(ev)\n\t}\n\tif ev.Type != \"\" {\n\t\tfor _, cb := range c.callbacks[\"\"] {\n\t\t\tcb(ev)\n\t\t}\n\t}"),
 ("C15-partial-count-dropped", "C15", "message.go", "\tm, err := writeString(w, c.content)\n\tn += m\n\tif err != nil {\n\t\treturn int64(n), err\n\t}", "\tm, err := writeString(w, c.content)\n\tif err != nil {\n\t\treturn int64(n), err\n\t}\n\tn += m"),
 ("C16-upgrade-flush-skipped", "C16", "session.go", "\t\tif err := s.Res.Flush(); err != nil {\n\t\t\treturn err\n\t\t}\n\t\ts.didUpgrade = true", "\t\ts.didUpgrade = true"),
 ("C16-flush-always-skipped", "C16", "session.go", "\tif prevDidUpgrade == s.didUpgrade {\n\t\treturn s.Res.Flush()\n\t}\n\treturn nil", "\t_ = prevDidUpgrade\n\treturn nil"),
 ("C17-error-to-wrong-done", "C17", "joe.go", "\t\t\t\t\tif err != nil {\n\t\t\t\t\t\tdone <- err\n\t\t\t\t\t\tj.removeSubscriber(done)\n\t\t\t\t\t}", "\t\t\t\t\tif err != nil {\n\t\t\t\t\t\tfor other := range j.subscribers {\n\t\t\t\t\t\t\tdone = other\n\t\t\t\t\t\t\tbreak\n\t\t\t\t\t\t}\n\t\t\t\t\t\tdone <- err\n\t\t\t\t\t\tj.removeSubscriber(done)\n\t\t\t\t\t}"),
 ("C18-dequeue-not-zeroing", "C18", "replay.go", "\tq.buf[q.head] = *new(T)\n\n\tq.head++", "\tq.head++"),
 ("C19-ensureid-no-clone", "C19", "replay.go", "\tm = m.Clone()\n\tm.ID = ID(strconv.FormatUint(*currentID, 10))", "\tm.ID = ID(strconv.FormatUint(*currentID, 10))"),
 ("C20-buffer-limit-ignored", "C20", "client_connection.go", "\t\tif c.buf != nil || c.bufMaxSize > 0 {\n\t\t\tp.Buffer(c.buf, c.bufMaxSize)\n\t\t}", "\t\tif c.buf != nil {\n\t\t\tp.Buffer(c.buf, c.bufMaxSize)\n\t\t}"),
 ("C20-read-limit-ignored", "C20", "event.go", "\t\tif cfg != nil && cfg.MaxEventSize > 0 {", "\t\tif cfg != nil && cfg.MaxEventSize > 1<<20 {"),
 ("C14-json-not-validated", "C14", "message_fields.go", "\tid, err := newMessageField(input)\n\tif err != nil {\n\t\treturn err\n\t}\n\n\t*i = id\n\n\treturn nil\n}\n\n// MarshalText", "\t*i = messageField{value: input, set: true}\n\n\treturn nil\n}\n\n// MarshalText"),
]
EXTRA = {"C03-send-per-topic": ("joe.go", "\nfunc countCommon(a, b []string) int {\n\tn := 0\n\tfor _, x := range a {\n\t\tfor _, y := range b {\n\t\t\tif x == y {\n\t\t\t\tn++\n\t\t\t}\n\t\t}\n\t}\n\treturn n\n}\n")}
def sh(*a, **k): return subprocess.run(a, capture_output=True, text=True, **k)
sh('git', '-C', '/repo', 'worktree', 'remove', '--force', WT)
print(sh('git', '-C', '/repo', 'worktree', 'add', '-q', '--detach', WT, 'HEAD').stderr)
os.makedirs(OUT, exist_ok=True)
ok = []
for name, chk, f, old, new in M:
    p = os.path.join(WT, f)
    s = open(p).read()
    if s.count(old) != 1:
        print("SKIP", name, "pattern count", s.count(old)); continue
    s2 = s.replace(old, new)
    if name in EXTRA:
        s2 += EXTRA[name][1]
    open(p, 'w').write(s2)
    env = dict(os.environ, GOFLAGS='-mod=mod', GOPROXY='off', GOSUMDB='off', GOTOOLCHAIN='local')
    b = sh('go', 'build', './...', cwd=WT, env=env)
    if b.returncode != 0:
        print("NOBUILD", name, b.stderr[:300])
    else:
        d = sh('git', 'diff', cwd=WT).stdout
        open(os.path.join(OUT, name + '.diff'), 'w').write(d)
        ok.append((name, chk))
    sh('git', 'checkout', '--', '.', cwd=WT)
sh('git', '-C', '/repo', 'worktree', 'remove', '--force', WT)
open(os.path.join(OUT, 'LIST.tsv'), 'w').write(''.join('%s\t%s\n' % x for x in ok))
print(len(ok), "mutants written")
