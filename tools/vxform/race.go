package main

import (
	"fmt"
	"go/ast"
	"go/token"
	"go/types"
	"path/filepath"
	"strconv"
)

// The -race pass: before every statement it inserts calls that tell the runtime which shared memory the
// statement is about to touch - fields of the library's synchronised struct types (those that hold a mutex, a
// Once, an atomic or a channel) and every map operation. The runtime checks them against happens-before in
// every explored execution (vrt/race.go). The pass is best effort by construction: an expression it cannot
// name without side effects is left uninstrumented, never rewritten.

type racePass struct {
	fset    *token.FileSet
	info    *types.Info
	targets map[*types.TypeName]bool
	count   int
}

type access struct {
	expr  ast.Expr
	isMap bool
	write bool
}

func syncish(t types.Type) bool {
	switch u := t.(type) {
	case *types.Named:
		if p := u.Obj().Pkg(); p != nil && (p.Path() == "sync" || p.Path() == "sync/atomic") {
			return true
		}
		return false
	case *types.Chan:
		return true
	case *types.Pointer:
		return syncish(u.Elem())
	}
	return false
}

func newRacePass(fset *token.FileSet, info *types.Info, pkg *types.Package) *racePass {
	rp := &racePass{fset: fset, info: info, targets: map[*types.TypeName]bool{}}
	for _, name := range pkg.Scope().Names() {
		tn, ok := pkg.Scope().Lookup(name).(*types.TypeName)
		if !ok {
			continue
		}
		st, ok := tn.Type().Underlying().(*types.Struct)
		if !ok {
			continue
		}
		for i := 0; i < st.NumFields(); i++ {
			if syncish(st.Field(i).Type()) {
				rp.targets[tn] = true
			}
		}
	}
	return rp
}

// simple: the expression can be evaluated again without side effects (identifier paths and map lookups by them).
func simple(e ast.Expr) bool {
	switch x := e.(type) {
	case *ast.Ident:
		return true
	case *ast.BasicLit:
		return true
	case *ast.SelectorExpr:
		return simple(x.X)
	case *ast.ParenExpr:
		return simple(x.X)
	case *ast.StarExpr:
		return simple(x.X)
	case *ast.IndexExpr:
		return simple(x.X) && simple(x.Index)
	}
	return false
}

func clone(e ast.Expr) ast.Expr {
	switch x := e.(type) {
	case *ast.Ident:
		return ast.NewIdent(x.Name)
	case *ast.BasicLit:
		return &ast.BasicLit{Kind: x.Kind, Value: x.Value}
	case *ast.SelectorExpr:
		return &ast.SelectorExpr{X: clone(x.X), Sel: ast.NewIdent(x.Sel.Name)}
	case *ast.ParenExpr:
		return &ast.ParenExpr{X: clone(x.X)}
	case *ast.StarExpr:
		return &ast.StarExpr{X: clone(x.X)}
	case *ast.IndexExpr:
		return &ast.IndexExpr{X: clone(x.X), Index: clone(x.Index)}
	}
	return e
}

func (rp *racePass) isMap(e ast.Expr) bool {
	if tv, ok := rp.info.Types[e]; ok && tv.Type != nil {
		_, m := tv.Type.Underlying().(*types.Map)
		return m
	}
	return false
}

// targetField reports whether sel selects a (non-sync) field of one of the watched struct types.
func (rp *racePass) targetField(sel *ast.SelectorExpr) bool {
	s, ok := rp.info.Selections[sel]
	if !ok || s.Kind() != types.FieldVal {
		return false
	}
	if _, isChan := s.Obj().Type().Underlying().(*types.Chan); syncish(s.Obj().Type()) && !isChan {
		// mutexes, atomics, Once: their operations are synchronisation. A channel-typed FIELD, however, is a
		// plain word of memory holding a reference: reading it while another goroutine assigns it is a race
		// (e.g. lazily created channels), whatever is later done with the channel itself.
		return false
	}
	t := s.Recv()
	if p, ok := t.(*types.Pointer); ok {
		t = p.Elem()
	}
	n, ok := t.(*types.Named)
	if !ok || !rp.targets[n.Obj()] {
		return false
	}
	// only direct fields (an embedded path would name memory of another struct)
	return len(s.Index()) == 1
}

func (rp *racePass) collect(e ast.Expr, write bool, out *[]access) {
	switch x := e.(type) {
	case nil:
		return
	case *ast.FuncLit:
		return
	case *ast.SelectorExpr:
		if rp.targetField(x) && simple(x.X) {
			*out = append(*out, access{expr: x, write: write})
		}
		rp.collect(x.X, false, out)
	case *ast.IndexExpr:
		if rp.isMap(x.X) {
			if simple(x.X) {
				*out = append(*out, access{expr: x.X, isMap: true, write: write})
			}
		}
		rp.collect(x.X, false, out)
		rp.collect(x.Index, false, out)
	case *ast.CallExpr:
		if id, ok := x.Fun.(*ast.Ident); ok && len(x.Args) > 0 {
			if _, isB := rp.info.Uses[id].(*types.Builtin); isB && (id.Name == "delete" || id.Name == "len") && rp.isMap(x.Args[0]) && simple(x.Args[0]) {
				*out = append(*out, access{expr: x.Args[0], isMap: true, write: id.Name == "delete"})
			}
		}
		rp.collect(x.Fun, false, out)
		for _, a := range x.Args {
			rp.collect(a, false, out)
		}
	case *ast.UnaryExpr:
		if x.Op == token.AND {
			// taking an address is not an access; what is reached through the operand's base still is
			if s, ok := x.X.(*ast.SelectorExpr); ok {
				rp.collect(s.X, false, out)
				return
			}
		}
		rp.collect(x.X, false, out)
	case *ast.ParenExpr:
		rp.collect(x.X, write, out)
	case *ast.StarExpr:
		rp.collect(x.X, false, out)
	case *ast.BinaryExpr:
		rp.collect(x.X, false, out)
		rp.collect(x.Y, false, out)
	case *ast.KeyValueExpr:
		rp.collect(x.Value, false, out)
	case *ast.CompositeLit:
		for _, el := range x.Elts {
			rp.collect(el, false, out)
		}
	case *ast.SliceExpr:
		rp.collect(x.X, false, out)
		rp.collect(x.Low, false, out)
		rp.collect(x.High, false, out)
		rp.collect(x.Max, false, out)
	case *ast.TypeAssertExpr:
		rp.collect(x.X, false, out)
	}
}

func (rp *racePass) stmtAccesses(s ast.Stmt) []access {
	var out []access
	switch x := s.(type) {
	case *ast.ExprStmt:
		rp.collect(x.X, false, &out)
	case *ast.AssignStmt:
		for _, r := range x.Rhs {
			rp.collect(r, false, &out)
		}
		for _, l := range x.Lhs {
			if _, isIdent := l.(*ast.Ident); isIdent {
				continue
			}
			rp.collect(l, true, &out)
			if x.Tok != token.ASSIGN && x.Tok != token.DEFINE {
				rp.collect(l, false, &out) // op-assignment reads as well
			}
		}
	case *ast.IncDecStmt:
		rp.collect(x.X, true, &out)
	case *ast.ReturnStmt:
		for _, r := range x.Results {
			rp.collect(r, false, &out)
		}
	case *ast.SendStmt:
		rp.collect(x.Chan, false, &out)
		rp.collect(x.Value, false, &out)
	case *ast.GoStmt:
		rp.collect(x.Call, false, &out)
	case *ast.DeferStmt:
		rp.collect(x.Call, false, &out)
	case *ast.IfStmt:
		if x.Init == nil {
			rp.collect(x.Cond, false, &out)
		} else if a, ok := x.Init.(*ast.AssignStmt); ok {
			for _, r := range a.Rhs {
				rp.collect(r, false, &out)
			}
		}
	case *ast.SwitchStmt:
		if x.Init == nil {
			rp.collect(x.Tag, false, &out)
		}
	case *ast.RangeStmt:
		if rp.isMap(x.X) && simple(x.X) {
			out = append(out, access{expr: x.X, isMap: true})
		}
		rp.collect(x.X, false, &out)
	case *ast.SelectStmt:
		for _, cl := range x.Body.List {
			cc := cl.(*ast.CommClause)
			switch c := cc.Comm.(type) {
			case *ast.SendStmt:
				rp.collect(c.Chan, false, &out)
				rp.collect(c.Value, false, &out)
			case *ast.ExprStmt:
				rp.collect(c.X, false, &out)
			case *ast.AssignStmt:
				for _, r := range c.Rhs {
					rp.collect(r, false, &out)
				}
			}
		}
	case *ast.LabeledStmt:
		return rp.stmtAccesses(x.Stmt)
	case *ast.DeclStmt:
		if g, ok := x.Decl.(*ast.GenDecl); ok {
			for _, sp := range g.Specs {
				if vs, ok := sp.(*ast.ValueSpec); ok {
					for _, v := range vs.Values {
						rp.collect(v, false, &out)
					}
				}
			}
		}
	}
	return out
}

func (rp *racePass) calls(accs []access, pos token.Pos) []ast.Stmt {
	p := rp.fset.Position(pos)
	site := strconv.Quote(fmt.Sprintf("%s:%d", filepath.Base(p.Filename), p.Line))
	seen := map[string]bool{}
	var out []ast.Stmt
	for _, a := range accs {
		key := fmt.Sprintf("%s|%v|%v", types.ExprString(a.expr), a.isMap, a.write)
		if seen[key] {
			continue
		}
		seen[key] = true
		fn := "AccField"
		var arg ast.Expr = &ast.UnaryExpr{Op: token.AND, X: clone(a.expr)}
		if a.isMap {
			fn = "AccMap"
			arg = clone(a.expr)
		}
		w := "false"
		if a.write {
			w = "true"
		}
		out = append(out, &ast.ExprStmt{X: &ast.CallExpr{
			Fun:  &ast.SelectorExpr{X: ast.NewIdent("vrt"), Sel: ast.NewIdent(fn)},
			Args: []ast.Expr{arg, ast.NewIdent(w), &ast.BasicLit{Kind: token.STRING, Value: site}}}})
		rp.count++
	}
	return out
}

// list instruments one statement list and everything nested in it.
func (rp *racePass) list(stmts []ast.Stmt) []ast.Stmt {
	var out []ast.Stmt
	for _, s := range stmts {
		out = append(out, rp.calls(rp.stmtAccesses(s), s.Pos())...)
		rp.nested(s)
		out = append(out, s)
	}
	return out
}

// nested descends into the blocks and function literals inside s.
func (rp *racePass) nested(s ast.Stmt) {
	ast.Inspect(s, func(n ast.Node) bool {
		switch x := n.(type) {
		case *ast.BlockStmt:
			x.List = rp.list(x.List)
			return false
		case *ast.CaseClause:
			x.Body = rp.list(x.Body)
			for _, e := range x.List {
				rp.funcLits(e)
			}
			return false
		case *ast.CommClause:
			x.Body = rp.list(x.Body)
			return false
		case *ast.ForStmt:
			// the condition is evaluated before every iteration: tell the runtime at the top of the body
			var accs []access
			rp.collect(x.Cond, false, &accs)
			x.Body.List = append(rp.calls(accs, x.Pos()), rp.list(x.Body.List)...)
			return false
		case *ast.FuncLit:
			x.Body.List = rp.list(x.Body.List)
			return false
		}
		return true
	})
}

func (rp *racePass) funcLits(e ast.Expr) {
	ast.Inspect(e, func(n ast.Node) bool {
		if f, ok := n.(*ast.FuncLit); ok {
			f.Body.List = rp.list(f.Body.List)
			return false
		}
		return true
	})
}

func (rp *racePass) file(f *ast.File) {
	for _, d := range f.Decls {
		if fd, ok := d.(*ast.FuncDecl); ok && fd.Body != nil {
			fd.Body.List = rp.list(fd.Body.List)
		}
	}
}
