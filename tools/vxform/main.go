// vxform instruments package sse (the non-test files in the root of the repository) for the
// controlled scheduler: channel operations, select, close, go, map iteration and the sync / time /
// math/rand imports are rewritten to calls into the vrt runtime. It writes the rewritten files and an
// overlay JSON for `go build -overlay`; the repository is not modified. See DESIGN.md section 2.1.
//
// The rewrite is mechanical. Anything it does not know how to rewrite is an error (exit 2), never
// silently left native.
package main

import (
	"bytes"
	"encoding/json"
	"flag"
	"fmt"
	"go/ast"
	"go/format"
	"go/importer"
	"go/parser"
	"go/token"
	"go/types"
	"os"
	"path/filepath"
	"reflect"
	"sort"
	"strconv"
	"strings"
)

const vrtPath = "github.com/tmaxmax/go-sse/vrt"

var importShims = map[string][2]string{ // original path -> (local name, shim path)
	"sync":        {"sync", vrtPath + "/vsync"},
	"time":        {"time", vrtPath + "/vtime"},
	"math/rand":   {"rand", vrtPath + "/vrand"},
	"sync/atomic": {"atomic", vrtPath + "/vatomic"},
	"context":     {"context", vrtPath + "/vctx"},
}

var forbiddenImports = map[string]bool{"math/rand/v2": true, "os/signal": true}

type rewriter struct {
	fset   *token.FileSet
	info   *types.Info
	n      int
	used   bool // vrt referenced in the current file
	errs   []string
	recv2  map[*ast.UnaryExpr]bool
	counts map[string]int
}

func (r *rewriter) errorf(pos token.Pos, format string, args ...any) {
	r.errs = append(r.errs, fmt.Sprintf("%s: %s", r.fset.Position(pos), fmt.Sprintf(format, args...)))
}

func (r *rewriter) tmp(prefix string) *ast.Ident {
	r.n++
	return ast.NewIdent(fmt.Sprintf("vrt%s%d", prefix, r.n))
}

func (r *rewriter) vrtCall(name string, args ...ast.Expr) *ast.CallExpr {
	r.used = true
	r.counts[name]++
	return &ast.CallExpr{Fun: &ast.SelectorExpr{X: ast.NewIdent("vrt"), Sel: ast.NewIdent(name)}, Args: args}
}

func (r *rewriter) isBuiltin(id *ast.Ident, name string) bool {
	if id.Name != name {
		return false
	}
	if obj, ok := r.info.Uses[id]; ok {
		_, isB := obj.(*types.Builtin)
		return isB
	}
	return true
}

func (r *rewriter) typeOf(e ast.Expr) types.Type {
	if tv, ok := r.info.Types[e]; ok {
		return tv.Type
	}
	return nil
}

var (
	exprType = reflect.TypeOf((*ast.Expr)(nil)).Elem()
	stmtType = reflect.TypeOf((*ast.Stmt)(nil)).Elem()
	nodeType = reflect.TypeOf((*ast.Node)(nil)).Elem()
)

// walk rewrites everything reachable from v (an addressable reflect.Value) in post-order.
func (r *rewriter) walk(v reflect.Value) {
	switch v.Kind() {
	case reflect.Interface:
		if v.IsNil() {
			return
		}
		if n, ok := v.Interface().(ast.Node); ok {
			if repl, handled := r.pre(n); handled {
				v.Set(reflect.ValueOf(repl))
				return
			}
			r.walk(v.Elem())
			if repl := r.post(n); repl != n {
				v.Set(reflect.ValueOf(repl))
			}
			return
		}
		r.walk(v.Elem())
	case reflect.Ptr:
		if v.IsNil() {
			return
		}
		switch c := v.Interface().(type) {
		case *ast.Object, *ast.Scope, *ast.CommentGroup, *ast.Comment:
			return
		case *ast.CallExpr:
			// typed slot (defer f(), go f()): children first, then the call itself
			r.walk(v.Elem())
			if v.CanSet() {
				if repl, ok := r.post(c).(*ast.CallExpr); ok && repl != c {
					v.Set(reflect.ValueOf(repl))
				}
			}
			return
		}
		r.walk(v.Elem())
	case reflect.Struct:
		for i := 0; i < v.NumField(); i++ {
			f := v.Field(i)
			if f.CanSet() {
				r.walk(f)
			}
		}
	case reflect.Slice:
		for i := 0; i < v.Len(); i++ {
			r.walk(v.Index(i))
		}
	}
}

func (r *rewriter) walkExpr(e ast.Expr) ast.Expr {
	v := reflect.New(exprType).Elem()
	v.Set(reflect.ValueOf(e))
	r.walk(v)
	return v.Interface().(ast.Expr)
}

func (r *rewriter) walkStmts(list []ast.Stmt) []ast.Stmt {
	for i := range list {
		v := reflect.New(stmtType).Elem()
		v.Set(reflect.ValueOf(list[i]))
		r.walk(v)
		list[i] = v.Interface().(ast.Stmt)
	}
	return list
}

// pre handles nodes that must be rewritten before their children are visited.
func (r *rewriter) pre(n ast.Node) (ast.Node, bool) {
	switch s := n.(type) {
	case *ast.SelectStmt:
		return r.rewriteSelect(s, nil), true
	case *ast.LabeledStmt:
		if sel, ok := s.Stmt.(*ast.SelectStmt); ok {
			return r.rewriteSelect(sel, s.Label), true
		}
	case *ast.AssignStmt:
		if len(s.Lhs) == 2 && len(s.Rhs) == 1 {
			if u, ok := s.Rhs[0].(*ast.UnaryExpr); ok && u.Op == token.ARROW {
				r.recv2[u] = true
			}
		}
	case *ast.ValueSpec:
		if len(s.Names) == 2 && len(s.Values) == 1 {
			if u, ok := s.Values[0].(*ast.UnaryExpr); ok && u.Op == token.ARROW {
				r.recv2[u] = true
			}
		}
	case *ast.RangeStmt:
		if t := r.typeOf(s.X); t != nil {
			_ = t // channels: rewritten in post (rewriteChanRange)
		} else {
			r.errorf(s.Pos(), "range expression has no type information")
		}
	case *ast.ImportSpec:
		return n, true
	}
	return nil, false
}

func (r *rewriter) post(n ast.Node) ast.Node {
	switch s := n.(type) {
	case *ast.SendStmt:
		return &ast.ExprStmt{X: r.vrtCall("Send", s.Chan, s.Value)}
	case *ast.UnaryExpr:
		if s.Op == token.ARROW {
			if r.recv2[s] {
				return r.vrtCall("Recv2", s.X)
			}
			return r.vrtCall("Recv", s.X)
		}
	case *ast.CallExpr:
		if id, ok := s.Fun.(*ast.Ident); ok {
			if r.isBuiltin(id, "close") && len(s.Args) == 1 {
				return r.vrtCall("Close", s.Args[0])
			}
			if r.isBuiltin(id, "len") && len(s.Args) == 1 {
				if t := r.typeOf(s.Args[0]); t != nil {
					if _, ok := t.Underlying().(*types.Chan); ok {
						return r.vrtCall("ChanLen", s.Args[0])
					}
				}
			}
			if r.isBuiltin(id, "make") && len(s.Args) >= 1 {
				if ct, ok := s.Args[0].(*ast.ChanType); ok && ct.Dir == ast.SEND|ast.RECV {
					size := ast.Expr(&ast.BasicLit{Kind: token.INT, Value: "0"})
					if len(s.Args) > 1 {
						size = s.Args[1]
					}
					r.used = true
					r.counts["MakeChan"]++
					return &ast.CallExpr{Fun: &ast.IndexExpr{
						X:     &ast.SelectorExpr{X: ast.NewIdent("vrt"), Sel: ast.NewIdent("MakeChan")},
						Index: ct.Value}, Args: []ast.Expr{size}}
				}
			}
		}
		if sel, ok := s.Fun.(*ast.SelectorExpr); ok {
			if x, ok := sel.X.(*ast.Ident); ok && x.Name == "reflect" && (sel.Sel.Name == "Select" || sel.Sel.Name == "ChanOf") {
				r.errorf(s.Pos(), "reflect channel operations are not supported by vxform")
			}
		}
	case *ast.GoStmt:
		return r.rewriteGo(s)
	case *ast.RangeStmt:
		if t := r.typeOf(s.X); t != nil {
			if _, ok := t.Underlying().(*types.Map); ok {
				return r.rewriteMapRange(s)
			}
			if _, ok := t.Underlying().(*types.Chan); ok {
				return r.rewriteChanRange(s)
			}
		}
	}
	return n
}

func (r *rewriter) rewriteGo(s *ast.GoStmt) ast.Stmt {
	var stmts []ast.Stmt
	define := func(prefix string, e ast.Expr) ast.Expr {
		if tv, ok := r.info.Types[e]; ok && tv.Value != nil {
			return e // constant: keep in place (an untyped constant must not get a default type)
		}
		if id, ok := e.(*ast.Ident); ok && id.Name == "nil" {
			return e
		}
		id := r.tmp(prefix)
		stmts = append(stmts, &ast.AssignStmt{Lhs: []ast.Expr{id}, Tok: token.DEFINE, Rhs: []ast.Expr{e}})
		return id
	}
	call := s.Call
	fn := define("F", call.Fun)
	args := make([]ast.Expr, len(call.Args))
	for i, a := range call.Args {
		args[i] = define("A", a)
	}
	inner := &ast.CallExpr{Fun: fn, Args: args, Ellipsis: call.Ellipsis}
	lit := &ast.FuncLit{Type: &ast.FuncType{Params: &ast.FieldList{}}, Body: &ast.BlockStmt{List: []ast.Stmt{&ast.ExprStmt{X: inner}}}}
	stmts = append(stmts, &ast.ExprStmt{X: r.vrtCall("Go", lit)})
	return &ast.BlockStmt{List: stmts}
}

func isBlank(e ast.Expr) bool {
	if e == nil {
		return true
	}
	id, ok := e.(*ast.Ident)
	return ok && id.Name == "_"
}

func (r *rewriter) rewriteMapRange(s *ast.RangeStmt) ast.Stmt {
	ent := r.tmp("E")
	var head []ast.Stmt
	sel := func(name string) ast.Expr { return &ast.SelectorExpr{X: ent, Sel: ast.NewIdent(name)} }
	tok := s.Tok
	if tok == token.ILLEGAL {
		tok = token.DEFINE
	}
	if !isBlank(s.Key) {
		head = append(head, &ast.AssignStmt{Lhs: []ast.Expr{s.Key}, Tok: tok, Rhs: []ast.Expr{sel("Key")}})
	}
	okID := r.tmp("Ok")
	lookup := &ast.CallExpr{Fun: sel("Lookup")}
	if !isBlank(s.Value) {
		if tok == token.DEFINE {
			head = append(head, &ast.AssignStmt{Lhs: []ast.Expr{s.Value, okID}, Tok: token.DEFINE, Rhs: []ast.Expr{lookup}})
		} else {
			head = append(head, &ast.DeclStmt{Decl: &ast.GenDecl{Tok: token.VAR, Specs: []ast.Spec{&ast.ValueSpec{Names: []*ast.Ident{okID}, Type: ast.NewIdent("bool")}}}})
			head = append(head, &ast.AssignStmt{Lhs: []ast.Expr{s.Value, okID}, Tok: token.ASSIGN, Rhs: []ast.Expr{lookup}})
		}
	} else {
		head = append(head, &ast.AssignStmt{Lhs: []ast.Expr{ast.NewIdent("_"), okID}, Tok: token.DEFINE, Rhs: []ast.Expr{lookup}})
	}
	head = append(head, &ast.IfStmt{Cond: &ast.UnaryExpr{Op: token.NOT, X: okID}, Body: &ast.BlockStmt{List: []ast.Stmt{&ast.BranchStmt{Tok: token.CONTINUE}}}})
	body := &ast.BlockStmt{List: append(head, s.Body.List...)}
	return &ast.RangeStmt{Key: ast.NewIdent("_"), Value: ent, Tok: token.DEFINE, X: r.vrtCall("MapIter", s.X), Body: body}
}

// rewriteChanRange turns `for v := range ch { body }` into `for { v, ok := vrt.Recv2(ch); if !ok { break }; body }`
// (the channel expression is evaluated once, as the language says).
func (r *rewriter) rewriteChanRange(s *ast.RangeStmt) ast.Stmt {
	okID := r.tmp("Ok")
	var chID ast.Expr = r.tmp("Ch")
	inline := simple(s.X)
	if inline {
		// a plain variable or field path: reading it again in every iteration has no side effects, and the loop
		// stays a loop (labels on it keep working)
		chID = s.X
	}
	recv := r.vrtCall("Recv2", chID)
	var head []ast.Stmt
	switch {
	case isBlank(s.Key):
		head = append(head, &ast.AssignStmt{Lhs: []ast.Expr{ast.NewIdent("_"), okID}, Tok: token.DEFINE, Rhs: []ast.Expr{recv}})
	case s.Tok == token.ASSIGN:
		head = append(head, &ast.DeclStmt{Decl: &ast.GenDecl{Tok: token.VAR, Specs: []ast.Spec{&ast.ValueSpec{Names: []*ast.Ident{okID}, Type: ast.NewIdent("bool")}}}})
		head = append(head, &ast.AssignStmt{Lhs: []ast.Expr{s.Key, okID}, Tok: token.ASSIGN, Rhs: []ast.Expr{recv}})
	default:
		head = append(head, &ast.AssignStmt{Lhs: []ast.Expr{s.Key, okID}, Tok: token.DEFINE, Rhs: []ast.Expr{recv}})
	}
	head = append(head, &ast.IfStmt{Cond: &ast.UnaryExpr{Op: token.NOT, X: okID}, Body: &ast.BlockStmt{List: []ast.Stmt{&ast.BranchStmt{Tok: token.BREAK}}}})
	loop := &ast.ForStmt{Body: &ast.BlockStmt{List: append(head, s.Body.List...)}}
	if inline {
		return loop
	}
	return &ast.BlockStmt{List: []ast.Stmt{
		&ast.AssignStmt{Lhs: []ast.Expr{chID}, Tok: token.DEFINE, Rhs: []ast.Expr{s.X}},
		loop,
	}}
}

func (r *rewriter) rewriteSelect(s *ast.SelectStmt, label *ast.Ident) ast.Stmt {
	var pre []ast.Stmt
	var caseIDs []ast.Expr
	sw := &ast.SwitchStmt{Body: &ast.BlockStmt{}}
	hasDefault := false
	idx := 0
	for _, cl := range s.Body.List {
		cc := cl.(*ast.CommClause)
		body := r.walkStmts(cc.Body)
		if cc.Comm == nil {
			hasDefault = true
			sw.Body.List = append(sw.Body.List, &ast.CaseClause{List: []ast.Expr{&ast.UnaryExpr{Op: token.SUB, X: &ast.BasicLit{Kind: token.INT, Value: "1"}}}, Body: body})
			continue
		}
		id := r.tmp("C")
		var head []ast.Stmt
		recvOf := func(e ast.Expr) *ast.UnaryExpr {
			for {
				if p, ok := e.(*ast.ParenExpr); ok {
					e = p.X
					continue
				}
				break
			}
			u, ok := e.(*ast.UnaryExpr)
			if !ok || u.Op != token.ARROW {
				r.errorf(e.Pos(), "select case is not a receive")
				return &ast.UnaryExpr{X: ast.NewIdent("nil")}
			}
			return u
		}
		switch c := cc.Comm.(type) {
		case *ast.SendStmt:
			pre = append(pre, &ast.AssignStmt{Lhs: []ast.Expr{id}, Tok: token.DEFINE, Rhs: []ast.Expr{r.vrtCall("CaseSend", r.walkExpr(c.Chan), r.walkExpr(c.Value))}})
		case *ast.ExprStmt:
			u := recvOf(c.X)
			pre = append(pre, &ast.AssignStmt{Lhs: []ast.Expr{id}, Tok: token.DEFINE, Rhs: []ast.Expr{r.vrtCall("CaseRecv", r.walkExpr(u.X))}})
		case *ast.AssignStmt:
			u := recvOf(c.Rhs[0])
			pre = append(pre, &ast.AssignStmt{Lhs: []ast.Expr{id}, Tok: token.DEFINE, Rhs: []ast.Expr{r.vrtCall("CaseRecv", r.walkExpr(u.X))}})
			rhs := []ast.Expr{&ast.SelectorExpr{X: id, Sel: ast.NewIdent("Val")}}
			if len(c.Lhs) == 2 {
				rhs = append(rhs, &ast.SelectorExpr{X: id, Sel: ast.NewIdent("Ok")})
			}
			lhs := make([]ast.Expr, len(c.Lhs))
			for i := range c.Lhs {
				lhs[i] = r.walkExpr(c.Lhs[i])
			}
			head = append(head, &ast.AssignStmt{Lhs: lhs, Tok: c.Tok, Rhs: rhs})
		default:
			r.errorf(cc.Pos(), "unsupported select case")
		}
		caseIDs = append(caseIDs, id)
		sw.Body.List = append(sw.Body.List, &ast.CaseClause{
			List: []ast.Expr{&ast.BasicLit{Kind: token.INT, Value: strconv.Itoa(idx)}},
			Body: append(head, body...)})
		idx++
	}
	// keep the statement terminating when the select was (all cases return): a switch needs a default for that
	sw.Body.List = append(sw.Body.List, &ast.CaseClause{Body: []ast.Stmt{&ast.ExprStmt{X: &ast.CallExpr{
		Fun: ast.NewIdent("panic"), Args: []ast.Expr{&ast.BasicLit{Kind: token.STRING, Value: strconv.Quote("vrt: impossible select result")}}}}}})
	args := []ast.Expr{ast.NewIdent(strconv.FormatBool(hasDefault))}
	args = append(args, caseIDs...)
	sw.Tag = r.vrtCall("Select", args...)
	var swStmt ast.Stmt = sw
	if label != nil {
		swStmt = &ast.LabeledStmt{Label: label, Stmt: sw}
	}
	return &ast.BlockStmt{List: append(pre, swStmt)}
}

func main() {
	repo := flag.String("repo", "/repo", "repository root (package sse)")
	out := flag.String("out", "", "output directory for rewritten files and overlay.json")
	vrtDir := flag.String("vrt", "/verif/vrt", "directory holding the vrt runtime sources")
	extra := flag.String("extra", "", "comma separated list of dst=src overlay additions (dst relative to the repository root)")
	race := flag.Bool("race", false, "also insert memory-access notifications for the happens-before race detector (fields of synchronised structs, map operations)")
	as := flag.String("as", "", "key the overlay under this directory instead of -repo (to check a scratch copy of the repository while the module replace points at /repo)")
	flag.Parse()
	if *out == "" {
		fmt.Fprintln(os.Stderr, "vxform: -out required")
		os.Exit(2)
	}
	if err := run(*repo, *out, *vrtDir, *extra, *as, *race); err != nil {
		fmt.Fprintln(os.Stderr, "vxform:", err)
		os.Exit(2)
	}
}

func run(repo, out, vrtDir, extra, as string, race bool) error {
	keyRoot := repo
	if as != "" {
		keyRoot = as
	}
	if err := os.MkdirAll(out, 0o755); err != nil {
		return err
	}
	fset := token.NewFileSet()
	ents, err := os.ReadDir(repo)
	if err != nil {
		return err
	}
	var files []*ast.File
	var names []string
	for _, e := range ents {
		n := e.Name()
		if e.IsDir() || !strings.HasSuffix(n, ".go") || strings.HasSuffix(n, "_test.go") {
			continue
		}
		f, err := parser.ParseFile(fset, filepath.Join(repo, n), nil, parser.SkipObjectResolution)
		if err != nil {
			return err
		}
		files = append(files, f)
		names = append(names, n)
	}
	info := &types.Info{Types: map[ast.Expr]types.TypeAndValue{}, Uses: map[*ast.Ident]types.Object{}, Selections: map[*ast.SelectorExpr]*types.Selection{}}
	var terrs []string
	conf := types.Config{
		Importer: importer.ForCompiler(fset, "source", nil),
		Error:    func(err error) { terrs = append(terrs, err.Error()) },
	}
	cwd, _ := os.Getwd()
	_ = os.Chdir(repo) // the source importer resolves module-local imports relative to the working directory
	pkg, _ := conf.Check("github.com/tmaxmax/go-sse", fset, files, info)
	_ = os.Chdir(cwd)
	if len(terrs) > 0 {
		return fmt.Errorf("the repository does not type-check:\n  %s", strings.Join(terrs, "\n  "))
	}

	overlay := map[string]string{}
	summary := map[string]int{}
	var rp *racePass
	if race && pkg != nil {
		rp = newRacePass(fset, info, pkg)
	}
	for i, f := range files {
		r := &rewriter{fset: fset, info: info, recv2: map[*ast.UnaryExpr]bool{}, counts: map[string]int{}}
		if rp != nil {
			before := rp.count
			rp.file(f)
			if rp.count > before {
				r.used = true
				summary["race:accesses"] += rp.count - before
			}
		}
		// imports
		for _, im := range f.Imports {
			p, _ := strconv.Unquote(im.Path.Value)
			if forbiddenImports[p] {
				r.errorf(im.Pos(), "import %q is not supported by vxform", p)
			}
			if sh, ok := importShims[p]; ok {
				if im.Name != nil && im.Name.Name != sh[0] {
					if im.Name.Name == "_" || im.Name.Name == "." {
						r.errorf(im.Pos(), "unsupported import form for %q", p)
					}
				} else {
					im.Name = ast.NewIdent(sh[0])
				}
				im.Path.Value = strconv.Quote(sh[1])
				summary["import:"+p]++
			}
		}
		for _, d := range f.Decls {
			v := reflect.ValueOf(&d).Elem()
			r.walk(v)
		}
		if len(r.errs) > 0 {
			return fmt.Errorf("unsupported constructs:\n  %s", strings.Join(r.errs, "\n  "))
		}
		if r.used {
			spec := &ast.ImportSpec{Name: ast.NewIdent("vrt"), Path: &ast.BasicLit{Kind: token.STRING, Value: strconv.Quote(vrtPath)}}
			f.Decls = append([]ast.Decl{&ast.GenDecl{Tok: token.IMPORT, Specs: []ast.Spec{spec}}}, f.Decls...)
		}
		f.Comments = nil
		var buf bytes.Buffer
		if err := format.Node(&buf, token.NewFileSet(), f); err != nil {
			return fmt.Errorf("%s: %v", names[i], err)
		}
		dst := filepath.Join(out, names[i])
		hdr := "// Code generated by vxform from " + filepath.Join(repo, names[i]) + "; DO NOT EDIT.\n\n"
		if err := os.WriteFile(dst, append([]byte(hdr), buf.Bytes()...), 0o644); err != nil {
			return err
		}
		overlay[filepath.Join(keyRoot, names[i])] = dst
		for k, v := range r.counts {
			summary[k] += v
		}
	}
	// the runtime, as virtual packages of the repository's module
	err = filepath.Walk(vrtDir, func(p string, fi os.FileInfo, err error) error {
		if err != nil || fi.IsDir() || !strings.HasSuffix(p, ".go") || strings.HasSuffix(p, "_test.go") {
			return err
		}
		rel, _ := filepath.Rel(vrtDir, p)
		overlay[filepath.Join(keyRoot, "vrt", rel)] = p
		return nil
	})
	if err != nil {
		return err
	}
	if extra != "" {
		for _, kv := range strings.Split(extra, ",") {
			parts := strings.SplitN(kv, "=", 2)
			if len(parts) != 2 {
				return fmt.Errorf("bad -extra entry %q", kv)
			}
			overlay[filepath.Join(keyRoot, parts[0])] = parts[1]
		}
	}
	if as != "" {
		// the rest of the scratch copy (sub-packages are not instrumented): map its non-test Go files too
		_ = filepath.Walk(repo, func(p string, fi os.FileInfo, err error) error {
			if err != nil {
				return nil
			}
			rel, _ := filepath.Rel(repo, p)
			if fi.IsDir() {
				if rel == "cmd" || strings.HasPrefix(fi.Name(), ".") && rel != "." {
					return filepath.SkipDir
				}
				return nil
			}
			if !strings.HasSuffix(p, ".go") || strings.HasSuffix(p, "_test.go") || filepath.Dir(rel) == "." {
				return nil
			}
			overlay[filepath.Join(keyRoot, rel)] = p
			return nil
		})
	}
	js, _ := json.MarshalIndent(map[string]any{"Replace": overlay}, "", " ")
	if err := os.WriteFile(filepath.Join(out, "overlay.json"), js, 0o644); err != nil {
		return err
	}
	keys := make([]string, 0, len(summary))
	for k := range summary {
		keys = append(keys, k)
	}
	sort.Strings(keys)
	var sb strings.Builder
	for _, k := range keys {
		fmt.Fprintf(&sb, "%s=%d ", k, summary[k])
	}
	sjs, _ := json.Marshal(summary)
	_ = os.WriteFile(filepath.Join(out, "vxform-summary.json"), sjs, 0o644)
	fmt.Fprintln(os.Stderr, "vxform: rewrote", len(files), "files:", sb.String())
	return nil
}
