#!/bin/sh
# runs every hand-written mutant in /verif/mutants against the quick check of its property
cd /verif
: > mutants/RESULTS.tsv.tmp
while IFS="$(printf '\t')" read -r name chk; do
  r=$(tools/try_patch.sh /verif/mutants/$name.diff $chk | grep -a -m1 ' vs .*: exit ')
  rc=$(echo "$r" | sed -n 's/.*exit \([0-9]*\).*/\1/p'); sig=$(echo "$r" | sed -n 's/.*signature: //p' | cut -c1-140)
  printf '%s\t%s\t%s\t%s\n' "$name" "$chk" "$rc" "$sig" >> mutants/RESULTS.tsv.tmp
done < mutants/LIST.tsv
mv mutants/RESULTS.tsv.tmp mutants/RESULTS.tsv
