// Package vctx replaces package context in the instrumented build. Types and sentinel errors are the real
// ones; derived contexts are scheduler-owned (vrt.Ctx), so cancellation, deadlines and AfterFunc work under
// the controlled scheduler and the virtual clock instead of starting native goroutines.
package vctx

import (
	"context"
	"time"

	"github.com/tmaxmax/go-sse/vrt"
)

type (
	Context         = context.Context
	CancelFunc      = context.CancelFunc
	CancelCauseFunc = context.CancelCauseFunc
)

var (
	Canceled         = context.Canceled
	DeadlineExceeded = context.DeadlineExceeded
)

func Background() Context { return context.Background() }
func TODO() Context       { return context.TODO() }

func WithValue(parent Context, key, val any) Context {
	if p, ok := parent.(*vrt.Ctx); ok {
		return p.WithValue(key, val)
	}
	return context.WithValue(parent, key, val)
}

func WithoutCancel(parent Context) Context { return context.WithoutCancel(parent) }

func Cause(c Context) error {
	if v, ok := c.(*vrt.Ctx); ok {
		return v.Cause()
	}
	return context.Cause(c)
}

func derive(parent Context) *vrt.Ctx {
	if !vrt.InExecution() {
		panic("vctx: derived context outside a controlled execution")
	}
	return vrt.DeriveCtx(parent)
}

func WithCancel(parent Context) (Context, CancelFunc) {
	c := derive(parent)
	return c, func() { c.CancelNow() }
}

func WithCancelCause(parent Context) (Context, CancelCauseFunc) {
	c := derive(parent)
	return c, func(cause error) { c.CancelCause(cause) }
}

func WithDeadline(parent Context, d time.Time) (Context, CancelFunc) {
	return WithTimeout(parent, d.Sub(vrt.VirtualNow()))
}

func WithTimeout(parent Context, d time.Duration) (Context, CancelFunc) {
	c := derive(parent)
	c.ExpireAfter(int64(d))
	return c, func() { c.CancelNow() }
}

func AfterFunc(c Context, f func()) (stop func() bool) {
	if v, ok := c.(*vrt.Ctx); ok {
		return v.AfterFunc(f)
	}
	return func() bool { return true } // a context that is never done
}
