package vrt

import (
	"fmt"
	"time"
)

// Explorer enumerates all executions of Body by stateless depth-first search over choice lists.
type Explorer struct {
	Name string
	Body func()
	Opts Options
	// Check is the end-of-execution oracle. It runs for executions that ended (done, quiescent,
	// deadlock, crash, fail), not for pruned ones. It returns "" or a description of the violation.
	// It must depend only on the Result (per-thread logs, global log, outcome).
	Check func(r *Result) string
	// Outcome summarises what a completed execution showed (for counting distinct outcomes and for
	// the pruning self-test); default: the log digest.
	Outcome func(r *Result) string
	// OutcomeSet collects the distinct outcome strings when non-nil.
	OutcomeSet map[string]int
	// Budget: stop after this long (0: none). A stopped search reports Exhaustive=false.
	Deadline time.Time
	MaxExecs int

	Stats Stats
	// First violation found (nil if none).
	Violation *Violation
	// StopAtFirst: stop at the first violation.
	KeepGoing bool
	// Known: violations whose signature function returns a listed key are counted, not reported.
	Signature func(r *Result, msg string) string
	Known     map[string]bool
	KnownHits map[string]int
	// Samples of completed executions (choice list + logs) for the evidence file.
	Samples    []Sample
	MaxSamples int
	outcomes   map[uint64]bool
}

type Stats struct {
	Executions     int
	Completed      int // executions that reached an end state
	Pruned         int
	States         int // distinct state keys at choice points
	Transitions    int // scheduler steps executed, all executions
	Outcomes       int // distinct observation digests among completed executions
	MaxDepth       int
	Exhaustive     bool
	BoundReached   int
	ByOutcome      map[string]int
	Nondeterminism string
}

type Violation struct {
	Msg     string
	Choices []int
	Result  *Result
	Sig     string
}

type Sample struct {
	Choices []int               `json:"choices"`
	Outcome string              `json:"outcome"`
	Summary string              `json:"observed,omitempty"`
	Logs    map[string][]string `json:"logs,omitempty"`
	GLog    []string            `json:"glog,omitempty"`
}

// Replay runs one choice list with tracing.
func (x *Explorer) Replay(choices []int) *Result {
	o := x.Opts
	o.Trace = true
	o.Prune = false
	o.PreemptBound, o.FaultBound, o.OrderBound = -1, -1, -1
	return run(x.Body, choices, &o, nil)
}

// Judge applies the oracle to a result.
func (x *Explorer) Judge(r *Result) string {
	switch r.Outcome {
	case Diverged:
		return "infrastructure: " + r.Outcome + ": " + r.Msg
	case StepLimit:
		// every scenario has a finite horizon: running past it means some loop never ends (e.g. endless retries)
		return "livelock: the scenario did not come to an end within the step horizon"
	case Failed:
		return r.Msg
	}
	if x.Check != nil {
		return x.Check(r)
	}
	if r.Outcome == Crash || r.Outcome == Deadlock {
		return r.Outcome + ": " + r.Msg
	}
	return ""
}

// Explore runs the search. It returns an error for infrastructure problems (nondeterminism, divergence).
func (x *Explorer) Explore() error {
	visited := map[uint64]uint16{}
	x.outcomes = map[uint64]bool{}
	x.Stats.ByOutcome = map[string]int{}
	if x.KnownHits == nil {
		x.KnownHits = map[string]int{}
	}
	if x.MaxSamples == 0 {
		x.MaxSamples = 3
	}
	// determinism: the default execution, twice, must give identical observations
	o := x.Opts
	o.Prune = false
	r1 := run(x.Body, nil, &o, nil)
	r2 := run(x.Body, r1.Choices, &o, nil)
	if r1.Digest() != r2.Digest() || r1.Outcome != r2.Outcome || len(r1.Choices) != len(r2.Choices) {
		x.Stats.Nondeterminism = fmt.Sprintf("first execution replayed differently: %s/%d vs %s/%d", r1.Outcome, len(r1.Choices), r2.Outcome, len(r2.Choices))
		return fmt.Errorf("nondeterministic harness %s: %s", x.Name, x.Stats.Nondeterminism)
	}

	stack := [][]int{nil}
	x.Stats.Exhaustive = true
	for len(stack) > 0 {
		if (!x.Deadline.IsZero() && x.Stats.Executions%64 == 0 && time.Now().After(x.Deadline)) ||
			(x.MaxExecs > 0 && x.Stats.Executions >= x.MaxExecs) {
			x.Stats.Exhaustive = false
			break
		}
		prefix := stack[len(stack)-1]
		stack = stack[:len(stack)-1]
		opts := x.Opts
		r := run(x.Body, prefix, &opts, visited)
		x.Stats.Executions++
		x.Stats.Transitions += r.Steps
		x.Stats.States += r.NewStates
		x.Stats.ByOutcome[r.Outcome]++
		if len(r.points) > x.Stats.MaxDepth {
			x.Stats.MaxDepth = len(r.points)
		}
		if r.Outcome == Diverged {
			return fmt.Errorf("divergence while replaying prefix %v in %s: %s", prefix, x.Name, r.Msg)
		}
		if r.Outcome == Pruned {
			x.Stats.Pruned++
		} else {
			x.Stats.Completed++
			d := r.Digest()
			sum := ""
			if x.Outcome != nil {
				os := x.Outcome(r)
				sum = os
				if len(sum) > 600 {
					sum = sum[:600] + "..."
				}
				d = hashString(os)
				if x.OutcomeSet != nil {
					x.OutcomeSet[os]++
				}
			}
			if !x.outcomes[d] {
				x.outcomes[d] = true
				x.Stats.Outcomes++
				if len(x.Samples) < x.MaxSamples {
					x.Samples = append(x.Samples, Sample{Choices: r.Choices, Outcome: r.Outcome, Summary: sum, Logs: r.Logs, GLog: r.GLog})
				}
			}
			if msg := x.Judge(r); msg != "" {
				sig := ""
				if x.Signature != nil {
					sig = x.Signature(r, msg)
				}
				if sig != "" && x.Known[sig] {
					x.KnownHits[sig]++
				} else if x.Violation == nil {
					x.Violation = &Violation{Msg: msg, Choices: r.Choices, Result: r, Sig: sig}
					if !x.KeepGoing {
						x.Stats.Exhaustive = false
						return nil
					}
				}
			}
		}
		// schedule the alternatives of every choice point after the prefix
		for i := len(prefix); i < len(r.points); i++ {
			p := &r.points[i]
			for alt := p.n - 1; alt >= 0; alt-- {
				if alt == p.chosen {
					continue
				}
				if i < len(prefix) {
					continue
				}
				if alt < p.chosen {
					// alternatives before the default were unaffordable
					continue
				}
				if x.Opts.PreemptBound >= 0 && p.preBefore+p.costs[alt] > x.Opts.PreemptBound {
					x.Stats.BoundReached++
					continue
				}
				if x.Opts.FaultBound >= 0 && p.fltBefore+p.fcosts[alt] > x.Opts.FaultBound {
					x.Stats.BoundReached++
					continue
				}
				if x.Opts.OrderBound >= 0 && p.ordBefore+p.ocosts[alt] > x.Opts.OrderBound {
					x.Stats.BoundReached++
					continue
				}
				np := make([]int, i+1)
				for k := 0; k < i; k++ {
					np[k] = r.points[k].chosen
				}
				np[i] = alt
				stack = append(stack, np)
			}
		}
	}
	return nil
}

// Confirm re-executes a violation n times and reports whether it failed identically every time.
func (x *Explorer) Confirm(v *Violation, n int) bool {
	for i := 0; i < n; i++ {
		r := x.Replay(v.Choices)
		if x.Judge(r) != v.Msg {
			return false
		}
	}
	return true
}
