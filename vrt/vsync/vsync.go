// Package vsync replaces package sync in the instrumented build.
package vsync

import (
	"unsafe"

	"github.com/tmaxmax/go-sse/vrt"
)

type Locker interface {
	Lock()
	Unlock()
}

type Once struct{ _ byte }

func (o *Once) Do(f func()) {
	s := vrt.LookupSync(unsafe.Pointer(o), "once")
	if !vrt.OnceEnter(s) {
		return
	}
	defer vrt.OnceExit(s)
	f()
}

type Mutex struct{ _ byte }

func (m *Mutex) Lock()   { vrt.Lock(vrt.LookupSync(unsafe.Pointer(m), "mutex")) }
func (m *Mutex) Unlock() { vrt.Unlock(vrt.LookupSync(unsafe.Pointer(m), "mutex")) }

type RWMutex struct{ _ byte }

func (m *RWMutex) Lock()    { vrt.Lock(vrt.LookupSync(unsafe.Pointer(m), "rwmutex")) }
func (m *RWMutex) Unlock()  { vrt.Unlock(vrt.LookupSync(unsafe.Pointer(m), "rwmutex")) }
func (m *RWMutex) RLock()   { vrt.RLock(vrt.LookupSync(unsafe.Pointer(m), "rwmutex")) }
func (m *RWMutex) RUnlock() { vrt.RUnlock(vrt.LookupSync(unsafe.Pointer(m), "rwmutex")) }

func (m *Mutex) TryLock() bool    { return vrt.TryLock(vrt.LookupSync(unsafe.Pointer(m), "mutex")) }
func (m *RWMutex) TryLock() bool  { return vrt.TryLock(vrt.LookupSync(unsafe.Pointer(m), "rwmutex")) }
func (m *RWMutex) TryRLock() bool { return vrt.TryRLock(vrt.LookupSync(unsafe.Pointer(m), "rwmutex")) }

type rlocker struct{ m *RWMutex }

func (r rlocker) Lock()   { r.m.RLock() }
func (r rlocker) Unlock() { r.m.RUnlock() }

func (m *RWMutex) RLocker() Locker { return rlocker{m} }

// Cond replaces sync.Cond: waiters queue up on one-slot controlled channels, so a Signal that comes between a
// waiter's Unlock and its going to sleep is not lost, and every wake-up is a scheduling point.
type Cond struct {
	L Locker
	_ byte
}

type condData struct{ waiters []chan struct{} }

func NewCond(l Locker) *Cond { return &Cond{L: l} }

func (c *Cond) data() *condData {
	s := vrt.LookupSync(unsafe.Pointer(c), "cond")
	if s.Aux == nil {
		s.Aux = &condData{}
	}
	return s.Aux.(*condData)
}

func (c *Cond) Wait() {
	d := c.data()
	ch := vrt.MakeChan[struct{}](1)
	d.waiters = append(d.waiters, ch)
	c.L.Unlock()
	vrt.Recv(ch)
	c.L.Lock()
}

func (c *Cond) Signal() {
	d := c.data()
	vrt.Yield("cond.Signal")
	if len(d.waiters) > 0 {
		ch := d.waiters[0]
		d.waiters = d.waiters[1:]
		vrt.Send(ch, struct{}{})
	}
}

func (c *Cond) Broadcast() {
	d := c.data()
	vrt.Yield("cond.Broadcast")
	ws := d.waiters
	d.waiters = nil
	for _, ch := range ws {
		vrt.Send(ch, struct{}{})
	}
}

type WaitGroup struct{ _ byte }

func (w *WaitGroup) Add(n int) { vrt.WGAdd(vrt.LookupSync(unsafe.Pointer(w), "wg"), n) }
func (w *WaitGroup) Done()     { w.Add(-1) }
func (w *WaitGroup) Wait()     { vrt.WGWait(vrt.LookupSync(unsafe.Pointer(w), "wg")) }

// OnceFunc, OnceValue and OnceValues as in package sync, on the controlled Once.
func OnceFunc(f func()) func() {
	var o Once
	return func() { o.Do(f) }
}

func OnceValue[T any](f func() T) func() T {
	var o Once
	var v T
	return func() T {
		o.Do(func() { v = f() })
		return v
	}
}

func OnceValues[T1, T2 any](f func() (T1, T2)) func() (T1, T2) {
	var o Once
	var v1 T1
	var v2 T2
	return func() (T1, T2) {
		o.Do(func() { v1, v2 = f() })
		return v1, v2
	}
}

// Pool replaces sync.Pool: a LIFO free list that belongs to the current execution (a package-level pool starts
// empty in every execution, so executions stay independent and replayable). Get and Put are mutex-protected
// operations: scheduling points with the happens-before edges sync.Pool documents (Put(x) before the Get
// returning x). Nothing is ever dropped, which is the behaviour that exposes stale contents soonest.
type Pool struct {
	New func() any
	_   byte
}

type poolData struct{ items []any }

func (p *Pool) data() (*vrt.SyncObj, *poolData) {
	s := vrt.LookupSync(unsafe.Pointer(p), "pool")
	if s.Aux == nil {
		s.Aux = &poolData{}
	}
	return s, s.Aux.(*poolData)
}

func (p *Pool) Get() any {
	s, d := p.data()
	vrt.Lock(s)
	var x any
	if n := len(d.items); n > 0 {
		x = d.items[n-1]
		d.items = d.items[:n-1]
	}
	vrt.Unlock(s)
	if x == nil && p.New != nil {
		x = p.New()
	}
	return x
}

func (p *Pool) Put(x any) {
	if x == nil {
		return
	}
	s, d := p.data()
	vrt.Lock(s)
	d.items = append(d.items, x)
	vrt.Unlock(s)
}

// Map replaces sync.Map: a mutex-protected map of the current execution; Range visits in insertion order.
type Map struct{ _ byte }

type mapData struct {
	m    map[any]any
	keys []any
}

func (m *Map) data() (*vrt.SyncObj, *mapData) {
	s := vrt.LookupSync(unsafe.Pointer(m), "syncmap")
	if s.Aux == nil {
		s.Aux = &mapData{m: map[any]any{}}
	}
	return s, s.Aux.(*mapData)
}

func (d *mapData) del(k any) {
	delete(d.m, k)
	for i, x := range d.keys {
		if x == k {
			d.keys = append(d.keys[:i:i], d.keys[i+1:]...)
			break
		}
	}
}

func (m *Map) Load(k any) (any, bool) {
	s, d := m.data()
	vrt.Lock(s)
	defer vrt.Unlock(s)
	v, ok := d.m[k]
	return v, ok
}

func (m *Map) Store(k, v any) { m.Swap(k, v) }

func (m *Map) Swap(k, v any) (any, bool) {
	s, d := m.data()
	vrt.Lock(s)
	defer vrt.Unlock(s)
	old, ok := d.m[k]
	if !ok {
		d.keys = append(d.keys, k)
	}
	d.m[k] = v
	return old, ok
}

func (m *Map) LoadOrStore(k, v any) (any, bool) {
	s, d := m.data()
	vrt.Lock(s)
	defer vrt.Unlock(s)
	if old, ok := d.m[k]; ok {
		return old, true
	}
	d.m[k] = v
	d.keys = append(d.keys, k)
	return v, false
}

func (m *Map) LoadAndDelete(k any) (any, bool) {
	s, d := m.data()
	vrt.Lock(s)
	defer vrt.Unlock(s)
	v, ok := d.m[k]
	if ok {
		d.del(k)
	}
	return v, ok
}

func (m *Map) Delete(k any) { m.LoadAndDelete(k) }

func (m *Map) CompareAndSwap(k, old, new any) bool {
	s, d := m.data()
	vrt.Lock(s)
	defer vrt.Unlock(s)
	if v, ok := d.m[k]; ok && v == old {
		d.m[k] = new
		return true
	}
	return false
}

func (m *Map) CompareAndDelete(k, old any) bool {
	s, d := m.data()
	vrt.Lock(s)
	defer vrt.Unlock(s)
	if v, ok := d.m[k]; ok && v == old {
		d.del(k)
		return true
	}
	return false
}

func (m *Map) Range(f func(k, v any) bool) {
	s, d := m.data()
	vrt.Lock(s)
	keys := append([]any(nil), d.keys...)
	vrt.Unlock(s)
	for _, k := range keys {
		v, ok := m.Load(k)
		if ok && !f(k, v) {
			return
		}
	}
}

func (m *Map) Clear() {
	s, d := m.data()
	vrt.Lock(s)
	d.m, d.keys = map[any]any{}, nil
	vrt.Unlock(s)
}
