// Package vsync replaces package sync in the instrumented build.
package vsync

import (
	"unsafe"

	"github.com/tmaxmax/go-sse/vrt"
)

type Locker interface {
	Lock()
	Unlock()
}

type Once struct{ _ byte }

func (o *Once) Do(f func()) {
	s := vrt.LookupSync(unsafe.Pointer(o), "once")
	if !vrt.OnceEnter(s) {
		return
	}
	defer vrt.OnceExit(s)
	f()
}

type Mutex struct{ _ byte }

func (m *Mutex) Lock()   { vrt.Lock(vrt.LookupSync(unsafe.Pointer(m), "mutex")) }
func (m *Mutex) Unlock() { vrt.Unlock(vrt.LookupSync(unsafe.Pointer(m), "mutex")) }

type RWMutex struct{ _ byte }

func (m *RWMutex) Lock()    { vrt.Lock(vrt.LookupSync(unsafe.Pointer(m), "rwmutex")) }
func (m *RWMutex) Unlock()  { vrt.Unlock(vrt.LookupSync(unsafe.Pointer(m), "rwmutex")) }
func (m *RWMutex) RLock()   { vrt.RLock(vrt.LookupSync(unsafe.Pointer(m), "rwmutex")) }
func (m *RWMutex) RUnlock() { vrt.RUnlock(vrt.LookupSync(unsafe.Pointer(m), "rwmutex")) }

type WaitGroup struct{ _ byte }

func (w *WaitGroup) Add(n int) { vrt.WGAdd(vrt.LookupSync(unsafe.Pointer(w), "wg"), n) }
func (w *WaitGroup) Done()     { w.Add(-1) }
func (w *WaitGroup) Wait()     { vrt.WGWait(vrt.LookupSync(unsafe.Pointer(w), "wg")) }
