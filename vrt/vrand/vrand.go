// Package vrand replaces math/rand in the instrumented build: every draw is an explorer choice.
package vrand

import "github.com/tmaxmax/go-sse/vrt"

type Source interface{}

type Rand struct{}

func NewSource(seed int64) Source { return nil }
func New(src Source) *Rand        { return &Rand{} }

// Draws lists the values Float64 may return: the middle first (the default), then the ends of [0,1).
// A draw other than the first is a deviation counted against Options.FaultBound.
var Draws = []float64{0.5, 0, 1 - 1.0/(1<<53)}

func (r *Rand) Float64() float64 { return Draws[vrt.ChooseFault(len(Draws), 1, "rand.Float64")] }
func Float64() float64           { return Draws[vrt.ChooseFault(len(Draws), 1, "rand.Float64")] }
func (r *Rand) Int63n(n int64) int64 {
	if n <= 1 {
		return 0
	}
	return []int64{0, n / 2, n - 1}[vrt.Choose(3, "rand.Int63n")]
}
func (r *Rand) Intn(n int) int { return int(r.Int63n(int64(n))) }
func Intn(n int) int           { return int((&Rand{}).Int63n(int64(n))) }
