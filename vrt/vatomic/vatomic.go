// Package vatomic replaces sync/atomic in the instrumented build: every operation is a scheduling point
// (atomics are synchronisation operations) followed by the plain operation.
package vatomic

import (
	"unsafe"

	"github.com/tmaxmax/go-sse/vrt"
)

func point(what string) {
	if vrt.InExecution() {
		vrt.Yield("atomic " + what)
	}
}

// sync gives the atomic variable at p acquire/release semantics for the happens-before race detector.
func sync(p unsafe.Pointer) { vrt.AtomicSync(p) }

type Int32 struct{ v int32 }

func (x *Int32) Load() int32 {
	point("load")
	sync(unsafe.Pointer(x))
	vrt.AbsorbInt(int64(x.v))
	return x.v
}
func (x *Int32) Store(v int32) { point("store"); sync(unsafe.Pointer(x)); x.v = v }
func (x *Int32) Add(d int32) int32 {
	point("add")
	sync(unsafe.Pointer(x))
	x.v += d
	vrt.AbsorbInt(int64(x.v))
	return x.v
}
func (x *Int32) Swap(v int32) int32 {
	point("swap")
	sync(unsafe.Pointer(x))
	o := x.v
	x.v = v
	vrt.AbsorbInt(int64(o))
	return o
}
func (x *Int32) CompareAndSwap(o, n int32) bool {
	point("cas")
	sync(unsafe.Pointer(x))
	if x.v == o {
		x.v = n
		vrt.AbsorbInt(1)
		return true
	}
	vrt.AbsorbInt(0)
	return false
}

type Int64 struct{ v int64 }

func (x *Int64) Load() int64   { point("load"); sync(unsafe.Pointer(x)); vrt.AbsorbInt(x.v); return x.v }
func (x *Int64) Store(v int64) { point("store"); sync(unsafe.Pointer(x)); x.v = v }
func (x *Int64) Add(d int64) int64 {
	point("add")
	sync(unsafe.Pointer(x))
	x.v += d
	vrt.AbsorbInt(x.v)
	return x.v
}
func (x *Int64) Swap(v int64) int64 {
	point("swap")
	sync(unsafe.Pointer(x))
	o := x.v
	x.v = v
	vrt.AbsorbInt(o)
	return o
}
func (x *Int64) CompareAndSwap(o, n int64) bool {
	point("cas")
	sync(unsafe.Pointer(x))
	if x.v == o {
		x.v = n
		vrt.AbsorbInt(1)
		return true
	}
	vrt.AbsorbInt(0)
	return false
}

type Uint32 struct{ v uint32 }

func (x *Uint32) Load() uint32 {
	point("load")
	sync(unsafe.Pointer(x))
	vrt.AbsorbInt(int64(x.v))
	return x.v
}
func (x *Uint32) Store(v uint32) { point("store"); sync(unsafe.Pointer(x)); x.v = v }
func (x *Uint32) Add(d uint32) uint32 {
	point("add")
	sync(unsafe.Pointer(x))
	x.v += d
	vrt.AbsorbInt(int64(x.v))
	return x.v
}
func (x *Uint32) Swap(v uint32) uint32 {
	point("swap")
	sync(unsafe.Pointer(x))
	o := x.v
	x.v = v
	vrt.AbsorbInt(int64(o))
	return o
}
func (x *Uint32) CompareAndSwap(o, n uint32) bool {
	point("cas")
	sync(unsafe.Pointer(x))
	if x.v == o {
		x.v = n
		vrt.AbsorbInt(1)
		return true
	}
	vrt.AbsorbInt(0)
	return false
}

type Uint64 struct{ v uint64 }

func (x *Uint64) Load() uint64 {
	point("load")
	sync(unsafe.Pointer(x))
	vrt.AbsorbInt(int64(x.v))
	return x.v
}
func (x *Uint64) Store(v uint64) { point("store"); sync(unsafe.Pointer(x)); x.v = v }
func (x *Uint64) Add(d uint64) uint64 {
	point("add")
	sync(unsafe.Pointer(x))
	x.v += d
	vrt.AbsorbInt(int64(x.v))
	return x.v
}
func (x *Uint64) Swap(v uint64) uint64 {
	point("swap")
	sync(unsafe.Pointer(x))
	o := x.v
	x.v = v
	vrt.AbsorbInt(int64(o))
	return o
}
func (x *Uint64) CompareAndSwap(o, n uint64) bool {
	point("cas")
	sync(unsafe.Pointer(x))
	if x.v == o {
		x.v = n
		vrt.AbsorbInt(1)
		return true
	}
	vrt.AbsorbInt(0)
	return false
}

type Bool struct{ v bool }

func b2i(b bool) int64 {
	if b {
		return 1
	}
	return 0
}
func (x *Bool) Load() bool {
	point("load")
	sync(unsafe.Pointer(x))
	vrt.AbsorbInt(b2i(x.v))
	return x.v
}
func (x *Bool) Store(v bool) { point("store"); sync(unsafe.Pointer(x)); x.v = v }
func (x *Bool) Swap(v bool) bool {
	point("swap")
	sync(unsafe.Pointer(x))
	o := x.v
	x.v = v
	vrt.AbsorbInt(b2i(o))
	return o
}
func (x *Bool) CompareAndSwap(o, n bool) bool {
	point("cas")
	sync(unsafe.Pointer(x))
	if x.v == o {
		x.v = n
		vrt.AbsorbInt(1)
		return true
	}
	vrt.AbsorbInt(0)
	return false
}

type Pointer[T any] struct{ p *T }

func (x *Pointer[T]) Load() *T {
	point("load")
	sync(unsafe.Pointer(x))
	vrt.AbsorbInt(int64(uintptr(unsafe.Pointer(x.p)) & 1))
	return x.p
}
func (x *Pointer[T]) Store(p *T) { point("store"); sync(unsafe.Pointer(x)); x.p = p }
func (x *Pointer[T]) Swap(p *T) *T {
	point("swap")
	sync(unsafe.Pointer(x))
	o := x.p
	x.p = p
	return o
}
func (x *Pointer[T]) CompareAndSwap(o, n *T) bool {
	point("cas")
	sync(unsafe.Pointer(x))
	if x.p == o {
		x.p = n
		vrt.AbsorbInt(1)
		return true
	}
	vrt.AbsorbInt(0)
	return false
}

type Value struct{ v any }

func (x *Value) Load() any   { point("load"); sync(unsafe.Pointer(x)); return x.v }
func (x *Value) Store(v any) { point("store"); sync(unsafe.Pointer(x)); x.v = v }

func LoadInt32(p *int32) int32 {
	point("load")
	sync(unsafe.Pointer(p))
	vrt.AbsorbInt(int64(*p))
	return *p
}
func StoreInt32(p *int32, v int32) { point("store"); sync(unsafe.Pointer(p)); *p = v }
func AddInt32(p *int32, d int32) int32 {
	point("add")
	sync(unsafe.Pointer(p))
	*p += d
	vrt.AbsorbInt(int64(*p))
	return *p
}
func CompareAndSwapInt32(p *int32, o, n int32) bool {
	point("cas")
	sync(unsafe.Pointer(p))
	if *p == o {
		*p = n
		vrt.AbsorbInt(1)
		return true
	}
	vrt.AbsorbInt(0)
	return false
}
func LoadInt64(p *int64) int64     { point("load"); sync(unsafe.Pointer(p)); vrt.AbsorbInt(*p); return *p }
func StoreInt64(p *int64, v int64) { point("store"); sync(unsafe.Pointer(p)); *p = v }
func AddInt64(p *int64, d int64) int64 {
	point("add")
	sync(unsafe.Pointer(p))
	*p += d
	vrt.AbsorbInt(*p)
	return *p
}
func CompareAndSwapInt64(p *int64, o, n int64) bool {
	point("cas")
	sync(unsafe.Pointer(p))
	if *p == o {
		*p = n
		vrt.AbsorbInt(1)
		return true
	}
	vrt.AbsorbInt(0)
	return false
}
func LoadUint32(p *uint32) uint32 {
	point("load")
	sync(unsafe.Pointer(p))
	vrt.AbsorbInt(int64(*p))
	return *p
}
func StoreUint32(p *uint32, v uint32) { point("store"); sync(unsafe.Pointer(p)); *p = v }
func AddUint32(p *uint32, d uint32) uint32 {
	point("add")
	sync(unsafe.Pointer(p))
	*p += d
	vrt.AbsorbInt(int64(*p))
	return *p
}
func CompareAndSwapUint32(p *uint32, o, n uint32) bool {
	point("cas")
	sync(unsafe.Pointer(p))
	if *p == o {
		*p = n
		vrt.AbsorbInt(1)
		return true
	}
	vrt.AbsorbInt(0)
	return false
}
func LoadUint64(p *uint64) uint64 {
	point("load")
	sync(unsafe.Pointer(p))
	vrt.AbsorbInt(int64(*p))
	return *p
}
func StoreUint64(p *uint64, v uint64) { point("store"); sync(unsafe.Pointer(p)); *p = v }
func AddUint64(p *uint64, d uint64) uint64 {
	point("add")
	sync(unsafe.Pointer(p))
	*p += d
	vrt.AbsorbInt(int64(*p))
	return *p
}

// the remaining function forms of package sync/atomic

func SwapInt32(p *int32, v int32) int32 {
	point("swap")
	sync(unsafe.Pointer(p))
	o := *p
	*p = v
	vrt.AbsorbInt(int64(o))
	return o
}
func SwapInt64(p *int64, v int64) int64 {
	point("swap")
	sync(unsafe.Pointer(p))
	o := *p
	*p = v
	vrt.AbsorbInt(o)
	return o
}
func SwapUint32(p *uint32, v uint32) uint32 {
	point("swap")
	sync(unsafe.Pointer(p))
	o := *p
	*p = v
	vrt.AbsorbInt(int64(o))
	return o
}
func SwapUint64(p *uint64, v uint64) uint64 {
	point("swap")
	sync(unsafe.Pointer(p))
	o := *p
	*p = v
	vrt.AbsorbInt(int64(o))
	return o
}
func LoadUintptr(p *uintptr) uintptr { point("load"); sync(unsafe.Pointer(p)); return *p }
func StoreUintptr(p *uintptr, v uintptr) {
	point("store")
	sync(unsafe.Pointer(p))
	*p = v
}
func AddUintptr(p *uintptr, d uintptr) uintptr {
	point("add")
	sync(unsafe.Pointer(p))
	*p += d
	return *p
}
func SwapUintptr(p *uintptr, v uintptr) uintptr {
	point("swap")
	sync(unsafe.Pointer(p))
	o := *p
	*p = v
	return o
}
func CompareAndSwapUintptr(p *uintptr, o, n uintptr) bool {
	point("cas")
	sync(unsafe.Pointer(p))
	if *p == o {
		*p = n
		vrt.AbsorbInt(1)
		return true
	}
	vrt.AbsorbInt(0)
	return false
}

// pointer forms: the value read is an address and is not absorbed into the state key (whether it is nil is)
func LoadPointer(p *unsafe.Pointer) unsafe.Pointer {
	point("load")
	sync(unsafe.Pointer(p))
	vrt.AbsorbInt(b2i(*p != nil))
	return *p
}
func StorePointer(p *unsafe.Pointer, v unsafe.Pointer) {
	point("store")
	sync(unsafe.Pointer(p))
	*p = v
}
func SwapPointer(p *unsafe.Pointer, v unsafe.Pointer) unsafe.Pointer {
	point("swap")
	sync(unsafe.Pointer(p))
	o := *p
	*p = v
	vrt.AbsorbInt(b2i(o != nil))
	return o
}
func CompareAndSwapPointer(p *unsafe.Pointer, o, n unsafe.Pointer) bool {
	point("cas")
	sync(unsafe.Pointer(p))
	if *p == o {
		*p = n
		vrt.AbsorbInt(1)
		return true
	}
	vrt.AbsorbInt(0)
	return false
}

func (x *Value) Swap(v any) any {
	point("swap")
	sync(unsafe.Pointer(x))
	o := x.v
	x.v = v
	return o
}
func (x *Value) CompareAndSwap(o, n any) bool {
	point("cas")
	sync(unsafe.Pointer(x))
	if x.v == o {
		x.v = n
		vrt.AbsorbInt(1)
		return true
	}
	vrt.AbsorbInt(0)
	return false
}

// Uintptr as a type
type Uintptr struct{ v uintptr }

func (x *Uintptr) Load() uintptr   { return LoadUintptr(&x.v) }
func (x *Uintptr) Store(v uintptr) { StoreUintptr(&x.v, v) }
func (x *Uintptr) Add(d uintptr) uintptr {
	return AddUintptr(&x.v, d)
}
func (x *Uintptr) Swap(v uintptr) uintptr { return SwapUintptr(&x.v, v) }
func (x *Uintptr) CompareAndSwap(o, n uintptr) bool {
	return CompareAndSwapUintptr(&x.v, o, n)
}
