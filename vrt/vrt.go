// Package vrt is the runtime of the controlled-scheduler model checker.
//
// The instrumented copy of package sse (produced by tools/vxform and applied with
// `go build -overlay`) calls into this package for every channel operation, select,
// close, go statement, map iteration, sync primitive, timer and random draw. Exactly
// one controlled goroutine ("thread") runs at a time; every shim operation announces
// itself and parks, and the scheduler - which owns the state of all shim objects -
// decides which announced operation happens next. See DESIGN.md section 2.1.
//
// The package is made visible to the build as github.com/tmaxmax/go-sse/vrt through
// the overlay; it does not exist in /repo.
package vrt

import (
	"fmt"
	"runtime"
	"runtime/debug"
	"sort"
	"strings"
	"unsafe"
)

// ---------------------------------------------------------------------------
// hashing

const (
	hSend uint64 = iota + 0x9e3779b97f4a7c15
	hRecv
	hClosed
	hCloseOK
	hPanic
	hLock
	hOnceRun
	hOnceDone
	hChoose
	hLoad
	hNow
	hSpawn
	hDefault
	hTimer
	hObj
)

func mix(h, v uint64) uint64 {
	h ^= v + 0x9e3779b97f4a7c15 + (h << 6) + (h >> 2)
	h *= 0xff51afd7ed558ccd
	h ^= h >> 33
	h *= 0xc4ceb9fe1a85ec53
	h ^= h >> 29
	return h
}

func hashString(s string) uint64 {
	h := uint64(14695981039346656037)
	for i := 0; i < len(s); i++ {
		h ^= uint64(s[i])
		h *= 1099511628211
	}
	return h
}

// ---------------------------------------------------------------------------
// threads, operations

type tstate int

const (
	tReady   tstate = iota // has to be run until its next announcement
	tRunning               // the one goroutine that runs
	tParked                // announced an operation, waits for the scheduler
	tDone
)

type opKind int

const (
	opSelect opKind = iota // also plain send / recv (single case, no default)
	opClose
	opOnce
	opLock
	opUnlock
	opRLock
	opRUnlock
	opChoose // alternatives decided by the explorer
	opYield  // always enabled, no effect (atomic accesses to harness state)
	opWGWait
	opJoin
)

type selCase struct {
	send bool
	ch   *chanState // nil: nil channel, never ready
	val  any        // value to send / value received
	ok   bool
}

type op struct {
	kind       opKind
	cases      []selCase
	hasDefault bool
	ch         *chanState
	obj        *syncState
	n          int  // opChoose: number of alternatives
	local      bool // opChoose: commutes with everything, other threads are not offered
	cost       int  // opChoose: deviation cost of every alternative > 0
	order      bool // opChoose: the cost counts against OrderBound instead of FaultBound
	what       string
	join       []*thread

	// results
	chosen   int
	panicMsg string
}

type thread struct {
	id     int
	cid    uint64
	name   string
	resume chan bool
	exited chan struct{}
	op     *op
	state  tstate
	hist   uint64
	vc     vclock
	log    []string
	nobj   int
	nspawn int
	// mayBlock: the scenario declares that this thread may stay blocked forever.
	mayBlock      bool
	body          func()
	spawnedByCode bool
}

type item struct {
	v  any
	h  uint64
	vc vclock
}

type chanState struct {
	cid     uint64
	id      int
	keep    any // the real channel (identity token), kept alive
	cap     int
	buf     []item
	closed  bool
	name    string
	closeVC vclock
}

type syncState struct {
	cid     uint64
	id      int
	kind    string
	state   int // once: 0 fresh, 1 running, 2 done; mutex: 1 writer held
	readers int
	holder  int
	count   int // waitgroup counter / shared value
	hash    uint64
	vc      vclock // released by Unlock / Once completion / Done / atomic or shared access
	rvc     vclock // released by RUnlock
	// Aux is private data of a shim built on this object (the contents of a sync.Pool or sync.Map); it lives and
	// dies with the execution, like everything else here.
	Aux any
}

type timerState struct {
	cid      uint64
	armed    bool
	deadline int64
	ch       *chanState
	realCh   any
	send     func(now int64) item
	onFire   func() // runs in the step in which the timer fires (context deadlines)
}

// ---------------------------------------------------------------------------
// execution

// Outcome kinds.
const (
	Done      = "done"      // every thread finished
	Quiescent = "quiescent" // nothing enabled, all unfinished threads are declared mayBlock
	Deadlock  = "deadlock"  // nothing enabled, some thread is stuck
	Crash     = "crash"     // a panic reached the top of a controlled goroutine: process death
	Failed    = "fail"      // harness oracle called Fail
	Pruned    = "pruned"    // reached an already explored state
	StepLimit = "steplimit"
	Diverged  = "diverged" // replay of a prefix did not find the recorded choice
)

type point struct {
	n         int   // alternatives
	costs     []int // deviation cost (preemptions) per alternative
	fcosts    []int // fault cost per alternative
	ocosts    []int // map-order deviation cost per alternative
	ordBefore int
	chosen    int
	preBefore int
	fltBefore int
}

type execution struct {
	threads   []*thread
	ready     []*thread
	cur       *thread
	last      *thread
	chans     map[unsafe.Pointer]*chanState
	chanList  []*chanState
	syncs     map[unsafe.Pointer]*syncState
	syncList  []*syncState
	timers    []*timerState
	timerArms []int64
	nctx      int
	clock     int64

	prefix []int
	points []point
	steps  int

	preempts int
	faults   int
	orders   int

	opts      *Options
	visited   map[uint64]uint16
	aborting  bool
	finished  chan struct{}
	finalizer *thread

	outcome        string
	msg            string
	blocked        []string
	glog           []string
	gdigest        uint64
	trace          []string
	user           any
	mem            map[uintptr]*memState
	newStates      int
	transitionsNew int
}

// E is the execution in progress. One execution at a time per process.
var E *execution

// Options of one run.
type Options struct {
	// Bound on preemptions (switching away from a thread that could continue); <0: none.
	PreemptBound int
	// Bound on the summed cost of harness faults (ChooseFault); <0: none.
	FaultBound int
	// Bound on the number of map iterations per execution that use a non-canonical order; <0: none.
	// (The zero value means canonical order only - scenarios set -1 or a small number.)
	OrderBound int
	// Prune executions that reach a state already seen (see DESIGN.md 2.1).
	Prune    bool
	MaxSteps int
	Trace    bool
	// Race: check the memory accesses instrumented by vxform -race against happens-before (vrt/race.go).
	Race bool
	// SyncTimers: Go 1.23 timer semantics (what a main module with go >= 1.23 gets): Reset and Stop discard a tick
	// of that timer which is still sitting in its channel. The default is the older behaviour, which the module's
	// own `go 1.22` directive selects: the stale tick stays and a later receive returns at once.
	SyncTimers bool
}

// Result of one execution.
type Result struct {
	Outcome          string
	Msg              string
	Blocked          []string
	Choices          []int
	Logs             map[string][]string // per thread name
	GLog             []string
	Trace            []string
	Steps            int
	points           []point
	NewStates        int
	Preempts, Faults int
	// User is what the scenario body registered with SetUser (its per-execution world).
	User any
}

func (r *Result) Digest() uint64 {
	h := hashString(r.Outcome)
	names := make([]string, 0, len(r.Logs))
	for n := range r.Logs {
		names = append(names, n)
	}
	sort.Strings(names)
	for _, n := range names {
		h = mix(h, hashString(n))
		for _, l := range r.Logs[n] {
			h = mix(h, hashString(l))
		}
	}
	for _, l := range r.GLog {
		h = mix(h, hashString(l))
	}
	if r.Outcome == Crash || r.Outcome == Failed {
		h = mix(h, hashString(r.Msg))
	}
	return h
}

type abortSignal struct{}

// run executes body under the scheduler, replaying prefix and then taking choice 0.
func run(body func(), prefix []int, opts *Options, visited map[uint64]uint16) *Result {
	if E != nil {
		panic("vrt: nested run")
	}
	e := &execution{
		chans:    map[unsafe.Pointer]*chanState{},
		syncs:    map[unsafe.Pointer]*syncState{},
		prefix:   prefix,
		opts:     opts,
		visited:  visited,
		finished: make(chan struct{}),
	}
	if e.opts.MaxSteps == 0 {
		e.opts.MaxSteps = 100000
	}
	E = e
	t0 := e.newThread("main", body, nil)
	e.ready = append(e.ready, t0)
	// kick off: the explorer goroutine plays the role of a finishing thread.
	e.dispatchFrom(nil)
	<-e.finished
	E = nil
	r := &Result{Outcome: e.outcome, Msg: e.msg, Blocked: e.blocked, GLog: e.glog, Trace: e.trace, Steps: e.steps,
		points: e.points, Logs: map[string][]string{}, NewStates: e.newStates, Preempts: e.preempts, Faults: e.faults, User: e.user}
	for _, p := range e.points {
		r.Choices = append(r.Choices, p.chosen)
	}
	for _, t := range e.threads {
		if len(t.log) > 0 {
			r.Logs[t.name] = t.log
		}
	}
	return r
}

func (e *execution) newThread(name string, body func(), parent *thread) *thread {
	t := &thread{id: len(e.threads), name: name, resume: make(chan bool), exited: make(chan struct{}), body: body, state: tReady}
	if parent == nil {
		t.cid = 1
		t.hist = 1
	} else {
		t.cid = mix(mix(parent.cid, hSpawn), uint64(parent.nspawn))
		t.hist = mix(mix(parent.hist, hSpawn), uint64(parent.nspawn))
		parent.nspawn++
		parent.tick()
		t.vc = parent.vc.copy()
	}
	t.tick()
	if name == "" {
		t.name = fmt.Sprintf("t%d", t.id)
		t.spawnedByCode = true
	}
	for _, o := range e.threads {
		if o.name == t.name {
			t.name = fmt.Sprintf("%s#%d", t.name, t.id)
		}
	}
	e.threads = append(e.threads, t)
	go e.threadMain(t)
	return t
}

func (e *execution) threadMain(t *thread) {
	normal := false
	defer func() {
		r := recover()
		defer close(t.exited)
		t.state = tDone
		t.op = nil
		if e.aborting {
			if e.finalizer == t {
				close(e.finished)
			}
			return
		}
		if r != nil || !normal {
			// A panic reached the top of a goroutine: in production the process dies here.
			msg := fmt.Sprint(r)
			if r == nil {
				msg = "runtime.Goexit called"
			}
			st := string(debug.Stack())
			e.finish(t, Crash, "panic in goroutine "+t.name+": "+msg+"\n"+trimStack(st))
			return
		}
		e.dispatchFrom(t)
	}()
	if ok := <-t.resume; !ok {
		return
	}
	t.body()
	normal = true
}

func trimStack(s string) string {
	lines := strings.Split(s, "\n")
	var out []string
	for _, l := range lines {
		if strings.Contains(l, "/go-sse") || strings.Contains(l, "/repo/") || strings.Contains(l, "verif/") {
			// keep the stable part: no argument values, no pc offsets
			if i := strings.Index(l, "(0x"); i >= 0 {
				l = l[:i]
			}
			if i := strings.Index(l, " +0x"); i >= 0 {
				l = l[:i]
			}
			if strings.Contains(l, "vrt.(*execution)") || strings.Contains(l, "/vrt/vrt.go") || strings.Contains(l, "runtime/debug") {
				continue
			}
			out = append(out, strings.TrimSpace(l))
		}
		if len(out) > 14 {
			break
		}
	}
	return strings.Join(out, "\n")
}

// yield announces o for the current thread and returns once the scheduler has performed it.
func (e *execution) yield(o *op) {
	t := e.cur
	if e.aborting {
		runtime.Goexit()
	}
	if t == nil || t.state != tRunning {
		panic("vrt: shim operation outside a controlled goroutine")
	}
	t.op = o
	t.state = tParked
	if e.dispatchFrom(t) {
		return
	}
	if ok := <-t.resume; !ok {
		runtime.Goexit()
	}
}

// dispatchFrom runs the scheduler on the goroutine of thread from (which has just parked or
// finished; nil for the explorer goroutine at start). It returns true if from itself is to continue.
func (e *execution) dispatchFrom(from *thread) bool {
	for {
		if len(e.ready) > 0 {
			t := e.ready[0]
			e.ready = e.ready[1:]
			t.state = tRunning
			e.cur = t
			if t == from {
				return true
			}
			t.resume <- true
			return false
		}
		trans := e.enabled()
		if len(trans) == 0 {
			kind := Done
			var blocked []string
			for _, t := range e.threads {
				if t.state != tDone {
					if kind == Done {
						kind = Quiescent
					}
					if !t.mayBlock {
						kind = Deadlock
					}
					blocked = append(blocked, t.name+": "+e.describeOp(t))
				}
			}
			e.blocked = blocked
			e.finish(from, kind, strings.Join(blocked, "; "))
			return false
		}
		e.steps++
		if e.steps > e.opts.MaxSteps {
			e.finish(from, StepLimit, "step limit reached")
			return false
		}
		idx := 0
		if len(trans) > 1 {
			var ok bool
			idx, ok = e.choose(trans)
			if !ok {
				e.finish(from, e.outcome, e.msg)
				return false
			}
		}
		e.apply(trans[idx])
	}
}

// finish ends the execution: all other threads are killed one after the other (their deferred
// functions run, every further shim operation exits the goroutine), then the caller goes.
func (e *execution) finish(from *thread, kind, msg string) {
	if e.aborting {
		return
	}
	e.outcome, e.msg = kind, msg
	e.aborting = true
	for _, t := range e.threads {
		if t == from || t.state == tDone {
			continue
		}
		t.resume <- false
		<-t.exited
	}
	if from == nil || from.state == tDone {
		// explorer goroutine, or a thread already inside its exit handler
		close(e.finished)
		return
	}
	e.finalizer = from
	runtime.Goexit()
}

type transition struct {
	t       *thread
	alt     int // case index, alternative; -1: default
	partner *thread
	palt    int
	timer   *timerState
}

func (tr *transition) involves(t *thread) bool { return tr.t == t || tr.partner == t }

func (e *execution) enabled() []transition {
	var out []transition
	// a parked local choice commutes with everything: decide it alone
	for _, t := range e.threads {
		if t.state == tParked && t.op.kind == opChoose && t.op.local {
			for i := 0; i < t.op.n; i++ {
				out = append(out, transition{t: t, alt: i})
			}
			return out
		}
	}
	for _, t := range e.threads {
		if t.state != tParked {
			continue
		}
		o := t.op
		switch o.kind {
		case opSelect:
			definite := false
			n0 := len(out)
			for i := range o.cases {
				c := &o.cases[i]
				if c.ch == nil {
					continue
				}
				if c.send {
					if c.ch.closed || len(c.ch.buf) < c.ch.cap {
						out = append(out, transition{t: t, alt: i})
						definite = true
					} else if c.ch.cap == 0 {
						for _, u := range e.threads {
							if u == t || u.state != tParked || u.op.kind != opSelect {
								continue
							}
							for j := range u.op.cases {
								if !u.op.cases[j].send && u.op.cases[j].ch == c.ch {
									out = append(out, transition{t: t, alt: i, partner: u, palt: j})
								}
							}
						}
					}
				} else {
					if len(c.ch.buf) > 0 || c.ch.closed {
						out = append(out, transition{t: t, alt: i})
						definite = true
					}
					// rendezvous with a parked sender is listed on the sender's side
				}
			}
			_ = n0
			if o.hasDefault && !definite {
				out = append(out, transition{t: t, alt: -1})
			}
		case opClose, opUnlock, opRUnlock, opYield:
			out = append(out, transition{t: t})
		case opOnce:
			if o.obj.state != 1 {
				out = append(out, transition{t: t})
			}
		case opLock:
			if o.obj.state == 0 && o.obj.readers == 0 {
				out = append(out, transition{t: t})
			}
		case opRLock:
			if o.obj.state == 0 {
				out = append(out, transition{t: t})
			}
		case opWGWait:
			if o.obj.count == 0 {
				out = append(out, transition{t: t})
			}
		case opJoin:
			all := true
			for _, u := range o.join {
				if u.state != tDone {
					all = false
				}
			}
			if all {
				out = append(out, transition{t: t})
			}
		case opChoose:
			for i := 0; i < o.n; i++ {
				out = append(out, transition{t: t, alt: i})
			}
		}
	}
	// canonical order: transitions of the last-run thread first
	if e.last != nil && len(out) > 1 {
		sort.SliceStable(out, func(i, j int) bool {
			return out[i].involves(e.last) && !out[j].involves(e.last)
		})
	}
	// the clock: the earliest armed timer may fire
	var first *timerState
	for _, tm := range e.timers {
		if tm.armed && (first == nil || tm.deadline < first.deadline) {
			first = tm
		}
	}
	if first != nil {
		out = append(out, transition{timer: first})
	}
	return out
}

// choose picks among several enabled transitions: replay the prefix, else 0; record the point.
func (e *execution) choose(trans []transition) (int, bool) {
	i := len(e.points)
	p := point{n: len(trans), preBefore: e.preempts, fltBefore: e.faults, ordBefore: e.orders}
	lastEnabled := false
	if e.last != nil && e.last.state == tParked {
		for k := range trans {
			if trans[k].involves(e.last) {
				lastEnabled = true
				break
			}
		}
	}
	p.costs = make([]int, len(trans))
	p.fcosts = make([]int, len(trans))
	p.ocosts = make([]int, len(trans))
	for k := range trans {
		tr := &trans[k]
		if tr.timer != nil {
			// time passing while the last thread could run is a preemption too
			if lastEnabled {
				p.costs[k] = 1
			}
			continue
		}
		if tr.t.op.kind == opChoose {
			if tr.alt > 0 {
				if tr.t.op.order {
					p.ocosts[k] = tr.t.op.cost
				} else {
					p.fcosts[k] = tr.t.op.cost
				}
			}
			if tr.t.op.local {
				continue
			}
		}
		if lastEnabled && !tr.involves(e.last) {
			p.costs[k] = 1
		}
	}
	var idx int
	if i < len(e.prefix) {
		idx = e.prefix[i]
		if idx < 0 || idx >= len(trans) {
			e.outcome, e.msg = Diverged, fmt.Sprintf("choice point %d: recorded choice %d but only %d alternatives", i, idx, len(trans))
			return 0, false
		}
	} else {
		idx = 0
		// default must be affordable: pick the first affordable alternative
		for idx < len(trans) && !e.affordable(&p, idx) {
			idx++
		}
		if idx == len(trans) {
			idx = 0
		}
		if e.opts.Prune && e.visited != nil {
			key := e.stateKey()
			budget := uint16(1)
			if e.opts.PreemptBound >= 0 {
				budget += uint16(e.preempts)
			}
			if e.opts.FaultBound >= 0 {
				budget += uint16(e.faults * 64)
			}
			if e.opts.OrderBound >= 0 {
				budget += uint16(e.orders * 1024)
			}
			if old, ok := e.visited[key]; ok && old <= budget {
				e.outcome, e.msg = Pruned, ""
				return 0, false
			}
			if _, ok := e.visited[key]; !ok {
				e.newStates++
			}
			e.visited[key] = budget
		}
	}
	p.chosen = idx
	e.preempts += p.costs[idx]
	e.faults += p.fcosts[idx]
	e.orders += p.ocosts[idx]
	e.points = append(e.points, p)
	return idx, true
}

func (e *execution) affordable(p *point, k int) bool {
	if e.opts.PreemptBound >= 0 && p.preBefore+p.costs[k] > e.opts.PreemptBound {
		return false
	}
	if e.opts.FaultBound >= 0 && p.fltBefore+p.fcosts[k] > e.opts.FaultBound {
		return false
	}
	if e.opts.OrderBound >= 0 && p.ordBefore+p.ocosts[k] > e.opts.OrderBound {
		return false
	}
	return true
}

func (e *execution) stateKey() uint64 {
	var k uint64
	for _, t := range e.threads {
		h := mix(t.cid, t.hist)
		if t.state == tDone {
			h = mix(h, 77)
		}
		k += mix(h, 1)
	}
	for _, c := range e.chanList {
		h := mix(c.cid, uint64(len(c.buf)))
		if c.closed {
			h = mix(h, hClosed)
		}
		for _, it := range c.buf {
			h = mix(h, it.h)
		}
		k += mix(h, 2)
	}
	for _, s := range e.syncList {
		h := mix(s.cid, uint64(s.state))
		h = mix(h, uint64(s.readers))
		h = mix(h, uint64(s.count))
		h = mix(h, s.hash)
		k += mix(h, 3)
	}
	for _, tm := range e.timers {
		if tm.armed {
			k += mix(mix(tm.cid, uint64(tm.deadline)), 4)
		}
	}
	k = mix(k, uint64(e.clock))
	k = mix(k, e.gdigest)
	if e.opts.PreemptBound >= 0 && e.last != nil {
		k = mix(k, e.last.cid)
	}
	return k
}

func (e *execution) complete(t *thread) {
	t.state = tReady
	e.ready = append(e.ready, t)
}

func (e *execution) apply(tr transition) {
	if tr.timer != nil {
		tm := tr.timer
		if tm.deadline > e.clock {
			e.clock = tm.deadline
		}
		tm.armed = false
		if len(tm.ch.buf) < tm.ch.cap {
			tm.ch.buf = append(tm.ch.buf, tm.send(e.clock))
		}
		if tm.onFire != nil {
			tm.onFire()
		}
		if e.opts.Trace {
			e.trace = append(e.trace, fmt.Sprintf("clock: timer fires, now=%dns", e.clock))
		}
		return
	}
	t := tr.t
	o := t.op
	if e.opts.Trace {
		s := fmt.Sprintf("%s: %s", t.name, e.describeTrans(&tr))
		e.trace = append(e.trace, s)
	}
	e.last = t
	// every operation advances the thread's program point: no operation may leave the state key unchanged
	t.hist = mix(t.hist, uint64(o.kind)+0x5bd1e995)
	switch o.kind {
	case opSelect:
		o.chosen = tr.alt
		if tr.alt < 0 {
			t.hist = mix(t.hist, hDefault)
			break
		}
		t.hist = mix(t.hist, uint64(tr.alt))
		c := &o.cases[tr.alt]
		if c.send {
			switch {
			case c.ch.closed:
				o.panicMsg = "send on closed channel"
				t.hist = mix(t.hist, hPanic)
			case tr.partner != nil:
				u := tr.partner
				pc := &u.op.cases[tr.palt]
				pc.val, pc.ok = c.val, true
				u.op.chosen = tr.palt
				u.hist = mix(mix(mix(u.hist, uint64(tr.palt)), hRecv), t.hist)
				t.hist = mix(t.hist, hSend)
				// unbuffered: the send happens before the receive completes and the receive before the send completes
				sv, rv := t.vc.copy(), u.vc.copy()
				u.acquire(sv)
				t.acquire(rv)
				u.tick()
				e.complete(u)
			default:
				c.ch.buf = append(c.ch.buf, item{v: c.val, h: t.hist, vc: t.vc.copy()})
				t.hist = mix(t.hist, hSend)
			}
		} else {
			if len(c.ch.buf) > 0 {
				it := c.ch.buf[0]
				c.ch.buf = append([]item(nil), c.ch.buf[1:]...)
				c.val, c.ok = it.v, true
				t.hist = mix(mix(t.hist, hRecv), it.h)
				t.acquire(it.vc)
			} else {
				c.val, c.ok = nil, false
				t.hist = mix(t.hist, hClosed)
				t.acquire(c.ch.closeVC)
			}
		}
	case opClose:
		if o.ch == nil {
			o.panicMsg = "close of nil channel"
		} else if o.ch.closed {
			o.panicMsg = "close of closed channel"
			t.hist = mix(t.hist, hPanic)
		} else {
			o.ch.closed = true
			o.ch.closeVC = t.vc.copy()
			t.hist = mix(t.hist, hCloseOK)
		}
	case opOnce:
		if o.obj.state == 0 {
			o.obj.state = 1
			o.chosen = 1 // run f
			t.hist = mix(t.hist, hOnceRun)
		} else {
			o.chosen = 0
			t.hist = mix(mix(t.hist, hOnceDone), o.obj.hash)
			t.acquire(o.obj.vc)
		}
	case opLock:
		o.obj.state = 1
		o.obj.holder = t.id
		t.hist = mix(mix(t.hist, hLock), o.obj.hash)
		t.acquire(o.obj.vc)
		t.acquire(o.obj.rvc)
	case opRLock:
		o.obj.readers++
		t.hist = mix(mix(t.hist, hLock), o.obj.hash)
		t.acquire(o.obj.vc)
	case opUnlock:
		if o.obj.state != 1 {
			o.panicMsg = "sync: unlock of unlocked mutex"
		}
		o.obj.state = 0
		o.obj.hash = mix(o.obj.hash, t.hist)
		o.obj.vc = t.vc.copy()
	case opRUnlock:
		if o.obj.readers <= 0 {
			o.panicMsg = "sync: RUnlock of unlocked RWMutex"
		} else {
			o.obj.readers--
		}
		o.obj.rvc = joinVC(o.obj.rvc, t.vc)
	case opChoose:
		o.chosen = tr.alt
		t.hist = mix(mix(t.hist, hChoose), uint64(tr.alt))
	case opJoin:
		for _, u := range o.join {
			t.hist = mix(t.hist, u.hist)
			t.acquire(u.vc)
		}
	case opWGWait:
		t.acquire(o.obj.vc)
	case opYield:
	}
	t.tick()
	e.complete(t)
}

func (e *execution) describeOp(t *thread) string {
	if t.op == nil {
		return "(no operation)"
	}
	o := t.op
	switch o.kind {
	case opSelect:
		var parts []string
		for i := range o.cases {
			c := &o.cases[i]
			n := "nil"
			if c.ch != nil {
				n = c.ch.String()
			}
			if c.send {
				parts = append(parts, n+"<-")
			} else {
				parts = append(parts, "<-"+n)
			}
		}
		if o.hasDefault {
			parts = append(parts, "default")
		}
		if len(parts) == 1 {
			return parts[0] + o.what
		}
		return "select{" + strings.Join(parts, " | ") + "}" + o.what
	case opClose:
		return "close(" + o.ch.String() + ")"
	case opOnce:
		return "once.Do"
	case opLock:
		return "Lock"
	case opUnlock:
		return "Unlock"
	case opRLock:
		return "RLock"
	case opRUnlock:
		return "RUnlock"
	case opChoose:
		return fmt.Sprintf("choose(%d) %s", o.n, o.what)
	case opYield:
		return "yield " + o.what
	case opWGWait:
		return "wg.Wait"
	case opJoin:
		var ns []string
		for _, u := range o.join {
			if u.state != tDone {
				ns = append(ns, u.name)
			}
		}
		return "join(" + strings.Join(ns, ",") + ")"
	}
	return "?"
}

func (e *execution) describeTrans(tr *transition) string {
	s := e.describeOp(tr.t)
	if tr.t.op.kind == opSelect && len(tr.t.op.cases) > 1 {
		s += fmt.Sprintf(" -> case %d", tr.alt)
	}
	if tr.t.op.kind == opChoose {
		s += fmt.Sprintf(" -> %d", tr.alt)
	}
	if tr.partner != nil {
		s += " (received by " + tr.partner.name + ")"
	}
	return s
}

func (c *chanState) String() string {
	if c == nil {
		return "nil"
	}
	if c.name != "" {
		return c.name
	}
	return fmt.Sprintf("ch%d", c.id)
}

// ---------------------------------------------------------------------------
// API used by the instrumented code and by harnesses

// Go starts f as a new controlled goroutine.
func Go(f func()) { GoNamed("", f) }

// Handle identifies a controlled goroutine.
type Handle struct{ t *thread }

// GoNamed starts f as a new controlled goroutine with a name used in logs and traces.
func GoNamed(name string, f func()) Handle {
	e := E
	if e == nil {
		panic("vrt: Go outside an execution")
	}
	if e.aborting {
		return Handle{}
	}
	t := e.newThread(name, f, e.cur)
	e.ready = append(e.ready, t)
	return Handle{t}
}

// Go2 is GoNamed with an automatic name that still counts as a harness thread.
func Go2(f func()) Handle {
	return GoNamed(fmt.Sprintf("h%d", len(E.threads)), f)
}

// Join blocks until all the given goroutines have finished.
func Join(hs ...Handle) {
	o := &op{kind: opJoin}
	for _, h := range hs {
		if h.t != nil {
			o.join = append(o.join, h.t)
		}
	}
	E.yield(o)
}

// SetUser registers the scenario's per-execution world; it is handed to the oracle in Result.User.
func SetUser(u any) { E.user = u }

// Log appends to the current thread's log (a function of the thread's own history).
func Log(format string, args ...any) {
	E.cur.log = append(E.cur.log, fmt.Sprintf(format, args...))
}

// GLog appends to the global, order-sensitive log. The log is part of the state key.
func GLog(format string, args ...any) {
	s := fmt.Sprintf(format, args...)
	E.glog = append(E.glog, s)
	E.gdigest = mix(E.gdigest, hashString(s))
}

// Fail records an oracle failure detected while the execution runs and ends the execution.
func Fail(format string, args ...any) {
	e := E
	if e.aborting {
		runtime.Goexit()
	}
	e.finish(e.cur, Failed, fmt.Sprintf(format, args...))
}

// MayBlock declares that the current thread may stay blocked forever without that being a deadlock.
func MayBlock() { E.cur.mayBlock = true }

// ThreadName returns the current thread's name.
func ThreadName() string { return E.cur.name }

// Yield is a pure scheduling point.
func Yield(what string) { E.yield(&op{kind: opYield, what: what}) }

// Choose lets the explorer pick a value in [0,n). The choice is local: it is not a scheduling point.
func Choose(n int, what string) int {
	if n <= 1 {
		return 0
	}
	o := &op{kind: opChoose, n: n, local: true, what: what}
	E.yield(o)
	return o.chosen
}

// ChooseFault is Choose whose alternatives > 0 are faults costing cost against Options.FaultBound.
func ChooseFault(n, cost int, what string) int {
	if n <= 1 {
		return 0
	}
	o := &op{kind: opChoose, n: n, local: true, cost: cost, what: what}
	E.yield(o)
	return o.chosen
}

// ChooseOrder is Choose for the order of a map iteration: alternatives > 0 count against Options.OrderBound.
func ChooseOrder(n int, what string) int {
	if n <= 1 {
		return 0
	}
	o := &op{kind: opChoose, n: n, local: true, cost: 1, order: true, what: what}
	E.yield(o)
	return o.chosen
}

// AbsorbInt folds an integer the current thread observed into its history.
func AbsorbInt(v int64) {
	if E != nil && E.cur != nil {
		E.cur.hist = mix(E.cur.hist, uint64(v)+0x1234567)
	}
}

// Absorb folds a value the current thread observed from outside the shims into its history.
func Absorb(v uint64) { E.cur.hist = mix(E.cur.hist, v) }

// InExecution tells whether a controlled execution is in progress.
func InExecution() bool { return E != nil }

// Now returns the virtual clock in nanoseconds.
func Now() int64 {
	E.cur.hist = mix(mix(E.cur.hist, hNow), uint64(E.clock))
	return E.clock
}

// Advance moves the virtual clock forward without firing timers that are due later than the new time;
// timers due earlier fire first (each as its own step the next time the scheduler runs).
func Advance(d int64) {
	e := E
	target := e.clock + d
	for {
		var first *timerState
		for _, tm := range e.timers {
			if tm.armed && tm.deadline <= target && (first == nil || tm.deadline < first.deadline) {
				first = tm
			}
		}
		if first == nil {
			break
		}
		e.apply(transition{timer: first})
	}
	e.clock = target
	e.cur.hist = mix(mix(e.cur.hist, hNow), uint64(e.clock))
}

func (e *execution) newObjCID() uint64 {
	t := e.cur
	c := mix(mix(t.cid, hObj), uint64(t.nobj))
	t.nobj++
	return c
}

// AliveUnnamed counts the unfinished goroutines that were started by the code under test (instrumented go
// statements), as opposed to the harness's named threads.
func AliveUnnamed() int {
	n := 0
	for _, t := range E.threads {
		if t.state != tDone && t.spawnedByCode {
			n++
		}
	}
	return n
}
