package vrt

import (
	"fmt"
	"unsafe"
)

// Happens-before race detection inside the scheduler (DESIGN.md 2.1, "exhaustive race detection").
//
// Every thread carries a vector clock; every synchronisation operation applied by the scheduler transfers
// clocks as the Go memory model prescribes (channel send -> receive, unbuffered receive -> send completion,
// close -> receive of the zero value, Unlock -> Lock, RUnlock -> Lock, Unlock -> RLock, Once completion ->
// Do return, WaitGroup Done -> Wait, atomics and harness shared variables as sequentially consistent, go
// statement -> start of the goroutine, goroutine end -> Join). Memory accesses that vxform's -race pass
// instruments (fields of the library's synchronised structs and all map operations) are checked against
// these clocks in EVERY explored execution: two accesses to the same location, at least one a write, that
// are not ordered by happens-before are a data race - in this schedule, whatever the hardware would do.

type vclock []uint32

func (v vclock) get(i int) uint32 {
	if i < len(v) {
		return v[i]
	}
	return 0
}

func (v vclock) copy() vclock { return append(vclock(nil), v...) }

func joinVC(a, b vclock) vclock {
	if len(b) > len(a) {
		a = append(a, make(vclock, len(b)-len(a))...)
	}
	for i, x := range b {
		if x > a[i] {
			a[i] = x
		}
	}
	return a
}

func (t *thread) tick() {
	for len(t.vc) <= t.id {
		t.vc = append(t.vc, 0)
	}
	t.vc[t.id]++
}

// acquire: t learns everything in v.
func (t *thread) acquire(v vclock) { t.vc = joinVC(t.vc, v) }

type memAccess struct {
	tid  int
	clk  uint32
	site string
	name string
}

type memState struct {
	keep  any
	write memAccess
	reads []memAccess
}

// RaceDetection is switched on by scenarios that want instrumented accesses checked (Options.Race).
func raceOn() bool { return E != nil && E.opts.Race && E.cur != nil && !E.aborting }

func (e *execution) access(key uintptr, keep any, write bool, site string) {
	t := e.cur
	if e.mem == nil {
		e.mem = map[uintptr]*memState{}
	}
	ms := e.mem[key]
	if ms == nil {
		ms = &memState{keep: keep}
		e.mem[key] = ms
	}
	conflict := func(prev memAccess, prevKind string) {
		kind := "read"
		if write {
			kind = "write"
		}
		Fail("data race: %s at %s by %s is not ordered with the earlier %s at %s by %s (no happens-before edge between them in this schedule)", kind, site, t.name, prevKind, prev.site, prev.name)
	}
	if ms.write.site != "" && ms.write.tid != t.id && ms.write.clk > t.vc.get(ms.write.tid) {
		conflict(ms.write, "write")
	}
	if write {
		for _, r := range ms.reads {
			if r.tid != t.id && r.clk > t.vc.get(r.tid) {
				conflict(r, "read")
			}
		}
		ms.write = memAccess{tid: t.id, clk: t.vc.get(t.id), site: site, name: t.name}
		ms.reads = ms.reads[:0]
		return
	}
	for i := range ms.reads {
		if ms.reads[i].tid == t.id {
			ms.reads[i] = memAccess{tid: t.id, clk: t.vc.get(t.id), site: site, name: t.name}
			return
		}
	}
	ms.reads = append(ms.reads, memAccess{tid: t.id, clk: t.vc.get(t.id), site: site, name: t.name})
}

// AccField records an access to the variable p points to (inserted by vxform -race).
func AccField[T any](p *T, write bool, site string) {
	if !raceOn() || p == nil {
		return
	}
	E.access(uintptr(unsafe.Pointer(p)), p, write, site)
}

// AccMap records an operation on map m (inserted by vxform -race): reads for lookups, len and range, writes
// for assignments and delete.
func AccMap[M ~map[K]V, K comparable, V any](m M, write bool, site string) {
	if !raceOn() || m == nil {
		return
	}
	E.access(uintptr(*(*unsafe.Pointer)(unsafe.Pointer(&m))), m, write, site)
}

// AtomicSync makes the current thread acquire and release the clock attached to the atomic variable at p.
func AtomicSync(p unsafe.Pointer) {
	if E == nil || E.cur == nil {
		return
	}
	s := LookupSync(p, "atomic")
	E.cur.acquire(s.vc)
	s.vc = joinVC(s.vc, E.cur.vc)
	E.cur.tick()
}

func (v vclock) String() string { return fmt.Sprint([]uint32(v)) }
