// Package vtime replaces package time in the instrumented build: types and constants are the real
// ones, the clock and timers are virtual and owned by the scheduler.
package vtime

import (
	"time"

	"github.com/tmaxmax/go-sse/vrt"
)

type (
	Duration = time.Duration
	Time     = time.Time
	Month    = time.Month
	Location = time.Location
)

const (
	Nanosecond  = time.Nanosecond
	Microsecond = time.Microsecond
	Millisecond = time.Millisecond
	Second      = time.Second
	Minute      = time.Minute
	Hour        = time.Hour
	RFC3339     = time.RFC3339
)

var UTC = time.UTC

// Base is the instant of virtual time zero.
var Base = time.Date(2030, 1, 1, 0, 0, 0, 0, time.UTC)

func at(ns int64) Time { return Base.Add(time.Duration(ns)) }

func Now() Time {
	if !vrt.InExecution() {
		return time.Now()
	}
	return at(vrt.Now())
}
func Since(t Time) Duration { return Now().Sub(t) }
func Until(t Time) Duration { return t.Sub(Now()) }
func Unix(s, ns int64) Time { return time.Unix(s, ns) }
func Date(y int, m Month, d, h, mi, s, ns int, l *Location) Time {
	return time.Date(y, m, d, h, mi, s, ns, l)
}
func ParseDuration(s string) (Duration, error) { return time.ParseDuration(s) }

type Timer struct {
	C <-chan Time
	t *vrt.Timer
}

func NewTimer(d Duration) *Timer {
	c := vrt.MakeChan[Time](1)
	return &Timer{C: c, t: vrt.NewTimer(c, int64(d), at)}
}
func (t *Timer) Reset(d Duration) bool { return t.t.Reset(int64(d)) }
func (t *Timer) Stop() bool            { return t.t.Stop() }

func After(d Duration) <-chan Time { return NewTimer(d).C }

// AfterFunc runs f on a goroutine of its own once d of virtual time has passed (unless stopped before).
func AfterFunc(d Duration, f func()) *Timer {
	c := vrt.MakeChan[Time](1)
	t := &Timer{t: vrt.NewTimer(c, int64(d), at)}
	t.t.OnFire(func() { vrt.Go(f) })
	return t
}

// Ticker on the virtual clock; like time.Ticker it drops ticks nobody has received.
type Ticker struct {
	C <-chan Time
	t *vrt.Timer
	d int64
}

func NewTicker(d Duration) *Ticker {
	if d <= 0 {
		panic("non-positive interval for NewTicker")
	}
	c := vrt.MakeChan[Time](1)
	tk := &Ticker{C: c, d: int64(d)}
	tk.t = vrt.NewTimer(c, int64(d), at)
	tk.t.OnFire(func() { tk.t.Rearm(tk.d) })
	return tk
}

func (t *Ticker) Stop() { t.t.Stop() }
func (t *Ticker) Reset(d Duration) {
	t.d = int64(d)
	t.t.Reset(int64(d))
}

func Tick(d Duration) <-chan Time { return NewTicker(d).C }
func Sleep(d Duration) {
	if d > 0 {
		vrt.Recv(After(d))
	}
}
