package vrt

import (
	"context"
	"fmt"
	"reflect"
	"sort"
	"strings"
	"time"
	"unsafe"
)

// Channels keep their Go types in the instrumented code; the real channel value is only an
// identity token (it is never sent on). Its state lives in the execution's side table.

func chanKey[C any](c C) unsafe.Pointer {
	return *(*unsafe.Pointer)(unsafe.Pointer(&c))
}

func (e *execution) lookupChan(key unsafe.Pointer, keep any, capacity int) *chanState {
	if key == nil {
		return nil
	}
	if cs, ok := e.chans[key]; ok {
		return cs
	}
	// lazily registered (made by uninstrumented code, e.g. a plain make in a harness)
	cs := &chanState{cid: e.newObjCID(), id: len(e.chanList), keep: keep, cap: capacity}
	e.chans[key] = cs
	e.chanList = append(e.chanList, cs)
	return cs
}

// MakeChan replaces make(chan T, n).
func MakeChan[T any](n int) chan T {
	c := make(chan T, n)
	if E != nil {
		E.lookupChan(chanKey(c), c, n)
	}
	return c
}

// NameChan gives a channel a name for traces.
func NameChan[T any](c chan T, name string) chan T {
	if cs := E.lookupChan(chanKey(c), c, cap(c)); cs != nil {
		cs.name = name
	}
	return c
}

func panicIf(o *op) {
	if o.panicMsg != "" {
		panic(shimPanic(o.panicMsg))
	}
}

type shimPanic string

func (s shimPanic) Error() string { return string(s) }
func (s shimPanic) RuntimeError() {}

// Send replaces c <- v.
func Send[T any](c chan<- T, v T) {
	e := E
	o := &op{kind: opSelect, cases: []selCase{{send: true, ch: e.lookupChan(chanKey(c), c, cap(c)), val: v}}}
	e.yield(o)
	panicIf(o)
}

// Recv replaces <-c.
func Recv[T any](c <-chan T) T {
	v, _ := Recv2(c)
	return v
}

// Recv2 replaces v, ok := <-c.
func Recv2[T any](c <-chan T) (T, bool) {
	e := E
	o := &op{kind: opSelect, cases: []selCase{{ch: e.lookupChan(chanKey(c), c, cap(c))}}}
	e.yield(o)
	var zero T
	if !o.cases[0].ok {
		return zero, false
	}
	v, _ := o.cases[0].val.(T)
	return v, true
}

// Close replaces close(c).
func Close[T any](c chan<- T) {
	e := E
	o := &op{kind: opClose, ch: e.lookupChan(chanKey(c), c, cap(c))}
	e.yield(o)
	panicIf(o)
}

// Case is one case of an instrumented select.
type Case interface {
	sel() selCase
	done(c *selCase)
}

// RecvCase is `case v, ok := <-c`.
type RecvCase[T any] struct {
	c   <-chan T
	Val T
	Ok  bool
}

// SendCase is `case c <- v`.
type SendCase[T any] struct {
	c chan<- T
	v T
}

func CaseRecv[T any](c <-chan T) *RecvCase[T]      { return &RecvCase[T]{c: c} }
func CaseSend[T any](c chan<- T, v T) *SendCase[T] { return &SendCase[T]{c: c, v: v} }

func (r *RecvCase[T]) sel() selCase {
	return selCase{ch: E.lookupChan(chanKey(r.c), r.c, cap(r.c))}
}
func (r *RecvCase[T]) done(c *selCase) {
	r.Ok = c.ok
	if c.ok {
		r.Val, _ = c.val.(T)
	}
}
func (s *SendCase[T]) sel() selCase {
	return selCase{send: true, ch: E.lookupChan(chanKey(s.c), s.c, cap(s.c)), val: s.v}
}
func (s *SendCase[T]) done(*selCase) {}

// Select replaces a select statement; it returns the index of the chosen case, -1 for default.
func Select(hasDefault bool, cases ...Case) int {
	e := E
	o := &op{kind: opSelect, hasDefault: hasDefault, cases: make([]selCase, len(cases))}
	for i, c := range cases {
		o.cases[i] = c.sel()
	}
	e.yield(o)
	panicIf(o)
	if o.chosen >= 0 {
		cases[o.chosen].done(&o.cases[o.chosen])
	}
	return o.chosen
}

// MapEntry is one step of an instrumented `for k, v := range m`.
type MapEntry[K comparable, V any] struct {
	Key K
	m   map[K]V
}

// Lookup returns the current value of the entry; ok is false if it was deleted during the iteration
// (Go does not produce such entries).
func (e MapEntry[K, V]) Lookup() (V, bool) {
	v, ok := e.m[e.Key]
	return v, ok
}

// MapIter replaces the range expression of `for k, v := range m`: the iteration order is a choice of the
// explorer. Entries added during the iteration are not produced (the spec permits that).
func MapIter[M ~map[K]V, K comparable, V any](m M) []MapEntry[K, V] {
	keys := make([]K, 0, len(m))
	for k := range m {
		keys = append(keys, k)
	}
	if len(keys) >= 2 && E != nil {
		// canonical base order: by a rank of the key that is the same in every execution
		sort.SliceStable(keys, func(i, j int) bool { return keyRank(keys[i]) < keyRank(keys[j]) })
		// one choice among all permutations (factorial number system); a non-canonical order is one deviation
		nperm := 1
		for i := 2; i <= len(keys) && nperm < 1000; i++ {
			nperm *= i
		}
		code := 0
		if nperm < 1000 {
			code = ChooseOrder(nperm, "map order")
		}
		out := make([]K, 0, len(keys))
		rest := keys
		for radix := len(rest); radix > 1; radix-- {
			f := 1
			for i := 2; i < radix; i++ {
				f *= i
			}
			i := code / f
			code %= f
			out = append(out, rest[i])
			rest = append(append([]K(nil), rest[:i]...), rest[i+1:]...)
		}
		keys = append(out, rest[0])
	}
	ents := make([]MapEntry[K, V], len(keys))
	for i, k := range keys {
		ents[i] = MapEntry[K, V]{Key: k, m: m}
	}
	return ents
}

// keyRank maps a map key to something that is the same in every execution of the scenario.
func keyRank(k any) string {
	v := reflect.ValueOf(k)
	switch v.Kind() {
	case reflect.Chan:
		if cs, ok := E.chans[v.UnsafePointer()]; ok {
			return fmt.Sprintf("c%020d", cs.cid)
		}
		return "c?"
	case reflect.Int, reflect.Int8, reflect.Int16, reflect.Int32, reflect.Int64:
		return fmt.Sprintf("i%020d", v.Int()+(1<<62))
	case reflect.String:
		return "s" + v.String()
	}
	var sb strings.Builder
	stableRank(&sb, v, 0)
	return "x" + sb.String()
}

// stableRank writes a description of v that does not depend on addresses: channels by their creation number,
// scalars by value, pointers / interfaces / structs by what they contain (to a small depth). Map keys that are
// pointers to per-subscriber structs are thereby ordered by the channels and values inside them, the same way
// in every execution.
func stableRank(sb *strings.Builder, v reflect.Value, depth int) {
	if depth > 4 {
		sb.WriteString("~")
		return
	}
	switch v.Kind() {
	case reflect.Chan:
		if v.IsNil() {
			sb.WriteString("c-")
		} else if cs, ok := E.chans[v.UnsafePointer()]; ok {
			fmt.Fprintf(sb, "c%020d", cs.cid)
		} else {
			sb.WriteString("c?")
		}
	case reflect.Bool:
		fmt.Fprintf(sb, "b%v", v.Bool())
	case reflect.Int, reflect.Int8, reflect.Int16, reflect.Int32, reflect.Int64:
		fmt.Fprintf(sb, "i%020d", v.Int()+(1<<62))
	case reflect.Uint, reflect.Uint8, reflect.Uint16, reflect.Uint32, reflect.Uint64, reflect.Uintptr:
		fmt.Fprintf(sb, "u%020d", v.Uint())
	case reflect.Float32, reflect.Float64:
		fmt.Fprintf(sb, "f%v", v.Float())
	case reflect.String:
		fmt.Fprintf(sb, "s%q", v.String())
	case reflect.Ptr, reflect.Interface:
		if v.IsNil() {
			sb.WriteString("n")
			return
		}
		sb.WriteString("*")
		stableRank(sb, v.Elem(), depth+1)
	case reflect.Struct:
		sb.WriteString("{")
		for i := 0; i < v.NumField(); i++ {
			stableRank(sb, v.Field(i), depth+1)
			sb.WriteString(",")
		}
		sb.WriteString("}")
	case reflect.Slice, reflect.Array:
		fmt.Fprintf(sb, "[%d:", v.Len())
		for i := 0; i < v.Len() && i < 4; i++ {
			stableRank(sb, v.Index(i), depth+1)
			sb.WriteString(",")
		}
		sb.WriteString("]")
	case reflect.Map:
		fmt.Fprintf(sb, "m%d", v.Len())
	default:
		sb.WriteString(v.Kind().String())
	}
}

// ---------------------------------------------------------------------------
// contexts

// Ctx is a context.Context whose Done channel lives in the scheduler.
type Ctx struct {
	done     chan struct{}
	err      error
	name     string
	vals     map[any]any
	parent   context.Context
	children []*Ctx
	after    []func()
	timer    *Timer
	deadline time.Time
	cause    error
}

// NewCtx creates a cancellable controlled context.
func NewCtx(name string) *Ctx {
	c := &Ctx{done: MakeChan[struct{}](0), name: name}
	NameChan(c.done, name+".Done")
	return c
}

func (c *Ctx) Deadline() (time.Time, bool) {
	if !c.deadline.IsZero() {
		return c.deadline, true
	}
	if c.parent != nil {
		return c.parent.Deadline()
	}
	return time.Time{}, false
}
func (c *Ctx) Done() <-chan struct{} { return c.done }
func (c *Ctx) Value(k any) any {
	if v, ok := c.vals[k]; ok {
		return v
	}
	if c.parent != nil {
		return c.parent.Value(k)
	}
	return nil
}

// WithValue returns a child that shares c's cancellation.
func (c *Ctx) WithValue(k, v any) *Ctx {
	ch := DeriveCtx(c)
	ch.vals = map[any]any{k: v}
	return ch
}

// DeriveCtx creates a cancellable child of parent (any context; a *Ctx parent propagates its cancellation).
func DeriveCtx(parent context.Context) *Ctx {
	E.nctx++
	c := NewCtx(fmt.Sprintf("ctx%d", E.nctx))
	c.parent = parent
	if p, ok := parent.(*Ctx); ok {
		if p.err != nil {
			c.CancelNow()
		} else {
			p.children = append(p.children, c)
		}
	}
	return c
}

// ExpireAfter cancels the context with DeadlineExceeded when d of virtual time has passed.
func (c *Ctx) ExpireAfter(d int64) {
	ch := MakeChan[struct{}](1)
	c.timer = NewTimer(ch, d, func(int64) struct{} { return struct{}{} })
	c.timer.tm.onFire = func() { c.cancelWith(context.DeadlineExceeded) }
	c.deadline = VirtualNow().Add(time.Duration(d))
}

// AfterFunc runs f (as part of the cancelling step) when the context is cancelled.
func (c *Ctx) AfterFunc(f func()) (stop func() bool) {
	if c.err != nil {
		Go(f)
		return func() bool { return false }
	}
	i := len(c.after)
	c.after = append(c.after, f)
	return func() bool {
		if c.err != nil || c.after[i] == nil {
			return false
		}
		c.after[i] = nil
		return true
	}
}

// VirtualNow returns the virtual time as a time.Time (same base as vtime).
func VirtualNow() time.Time {
	return time.Date(2030, 1, 1, 0, 0, 0, 0, time.UTC).Add(time.Duration(E.clock))
}

// Err is a scheduling point: it reads state another thread may change.
func (c *Ctx) Err() error {
	if E == nil || E.aborting {
		return c.err
	}
	Yield(c.name + ".Err")
	if c.err != nil {
		Absorb(hClosed)
	}
	return c.err
}

// PeekErr reads the context's error without a scheduling point (harness bookkeeping in the step of the
// preceding operation).
func (c *Ctx) PeekErr() error { return c.err }

// Cancel cancels the context (a scheduling point: closes the Done channel).
func (c *Ctx) Cancel() {
	o := &op{kind: opYield, what: c.name + ".cancel"}
	E.yield(o)
	c.CancelNow()
}

// CancelCause cancels with a cause (context.WithCancelCause): Err() stays context.Canceled, Cause() reports the cause.
func (c *Ctx) CancelCause(cause error) {
	o := &op{kind: opYield, what: c.name + ".cancel"}
	E.yield(o)
	if c.err == nil {
		c.cause = cause
	}
	c.CancelNow()
}

// Cause is context.Cause for controlled contexts.
func (c *Ctx) Cause() error {
	if c.err == nil {
		return nil
	}
	if c.cause != nil {
		return c.cause
	}
	if p, ok := c.parent.(*Ctx); ok && p.err != nil {
		return p.Cause()
	}
	return c.err
}

// CancelNow cancels without a separate scheduling point before it (used by writers/readers that
// fail and cancel in the same step, as net/http does).
func (c *Ctx) CancelNow() { c.cancelWith(context.Canceled) }

func (c *Ctx) cancelWith(err error) {
	if c.err != nil {
		return
	}
	c.err = err
	cs := E.lookupChan(chanKey(c.done), c.done, 0)
	cs.closed = true
	if E.cur != nil {
		E.cur.hist = mix(E.cur.hist, hCloseOK)
		cs.closeVC = E.cur.vc.copy()
		E.cur.tick()
	}
	if c.timer != nil {
		c.timer.Stop()
	}
	for _, ch := range c.children {
		ch.cancelWith(err)
	}
	for _, f := range c.after {
		if f != nil {
			Go(f)
		}
	}
}

// Cancelled reports the state without a scheduling point (for oracles running at the end or inside a step).
func (c *Ctx) Cancelled() bool { return c.err != nil }

var _ context.Context = (*Ctx)(nil)

// ---------------------------------------------------------------------------
// shared harness variables

// Shared is an integer shared between threads; every access is a scheduling point.
type Shared struct {
	s    *syncState
	name string
}

func NewShared(name string, v int64) *Shared {
	e := E
	s := &syncState{cid: e.newObjCID(), id: len(e.syncList), kind: "shared", count: int(v)}
	e.syncList = append(e.syncList, s)
	return &Shared{s: s, name: name}
}

func (s *Shared) sync() {
	E.cur.acquire(s.s.vc)
	s.s.vc = joinVC(s.s.vc, E.cur.vc)
}

func (s *Shared) Load() int64 {
	Yield("load " + s.name)
	s.sync()
	E.cur.hist = mix(mix(mix(E.cur.hist, hLoad), uint64(s.s.count)), s.s.hash)
	return int64(s.s.count)
}

func (s *Shared) Store(v int64) {
	Yield("store " + s.name)
	s.sync()
	s.s.count = int(v)
	s.s.hash = E.cur.hist
}

// Peek reads without a scheduling point. Only for code that runs in the same step as the operation
// it is ordered with (e.g. inside a MessageWriter called by the code under test), and for oracles.
func (s *Shared) Peek() int64 {
	s.sync()
	E.cur.hist = mix(mix(mix(E.cur.hist, hLoad), uint64(s.s.count)), s.s.hash)
	return int64(s.s.count)
}

// Poke writes without a scheduling point (same restriction as Peek).
func (s *Shared) Poke(v int64) {
	s.sync()
	s.s.count = int(v)
	s.s.hash = E.cur.hist
}

// ---------------------------------------------------------------------------
// sync objects (used by vrt/vsync)

type SyncObj = syncState

func LookupSync(p unsafe.Pointer, kind string) *SyncObj {
	e := E
	if s, ok := e.syncs[p]; ok {
		return s
	}
	s := &syncState{cid: e.newObjCID(), id: len(e.syncList), kind: kind}
	e.syncs[p] = s
	e.syncList = append(e.syncList, s)
	return s
}

// OnceEnter blocks while another thread runs the once function; it returns true if the caller must run it.
func OnceEnter(s *SyncObj) bool {
	if s.state == 2 {
		// Done never changes again: the call commutes with every other operation, so it is not a
		// scheduling point. The caller still learns what the once function published.
		E.cur.hist = mix(mix(E.cur.hist, hOnceDone), s.hash)
		E.cur.acquire(s.vc)
		return false
	}
	o := &op{kind: opOnce, obj: s}
	E.yield(o)
	return o.chosen == 1
}

// OnceExit marks the once as done.
func OnceExit(s *SyncObj) {
	if E == nil {
		return
	}
	s.state = 2
	if E.cur != nil {
		s.hash = E.cur.hist
		s.vc = E.cur.vc.copy()
		E.cur.tick()
	}
}

func Lock(s *SyncObj)    { E.yield(&op{kind: opLock, obj: s}) }
func RLock(s *SyncObj)   { E.yield(&op{kind: opRLock, obj: s}) }
func Unlock(s *SyncObj)  { o := &op{kind: opUnlock, obj: s}; E.yield(o); panicIf(o) }
func RUnlock(s *SyncObj) { o := &op{kind: opRUnlock, obj: s}; E.yield(o); panicIf(o) }

// TryLock / TryRLock: a scheduling point, then the attempt itself in the same step.
func TryLock(s *SyncObj) bool {
	Yield("TryLock")
	if s.state != 0 || s.readers != 0 {
		Absorb(hLock ^ 1)
		return false
	}
	t := E.cur
	s.state, s.holder = 1, t.id
	t.hist = mix(mix(t.hist, hLock), s.hash)
	t.acquire(s.vc)
	t.acquire(s.rvc)
	return true
}

func TryRLock(s *SyncObj) bool {
	Yield("TryRLock")
	if s.state != 0 {
		Absorb(hLock ^ 1)
		return false
	}
	t := E.cur
	s.readers++
	t.hist = mix(mix(t.hist, hLock), s.hash)
	t.acquire(s.vc)
	return true
}

// OnFire sets what runs in the step in which the timer fires (time.AfterFunc, tickers).
func (t *Timer) OnFire(f func()) { t.tm.onFire = f }

// Rearm arms the timer again d after its last deadline (tickers; called from OnFire).
func (t *Timer) Rearm(d int64) {
	t.tm.armed = true
	t.tm.deadline += d
}

// ChanLen is len(ch) for a controlled channel of any channel type (its buffer lives in the scheduler, not in
// the Go channel).
func ChanLen[C any](ch C) int {
	key := chanKey(ch)
	if E == nil || key == nil {
		return 0
	}
	Yield("len(chan)")
	n := 0
	if cs, ok := E.chans[key]; ok {
		n = len(cs.buf)
	}
	AbsorbInt(int64(n))
	return n
}

func WGAdd(s *SyncObj, n int) {
	Yield("wg.Add")
	if n < 0 {
		s.vc = joinVC(s.vc, E.cur.vc) // Done happens before the Wait it unblocks
	}
	s.count += n
	if s.count < 0 {
		panic("sync: negative WaitGroup counter")
	}
}
func WGWait(s *SyncObj) { E.yield(&op{kind: opWGWait, obj: s}) }

// ---------------------------------------------------------------------------
// timers (used by vrt/vtime)

type Timer struct{ tm *timerState }

// NewTimer arms a timer that puts mk(now) into ch (capacity 1, made with MakeChan) when it fires.
func NewTimer[T any](ch chan T, d int64, mk func(now int64) T) *Timer {
	e := E
	cs := e.lookupChan(chanKey(ch), ch, cap(ch))
	tm := &timerState{cid: e.newObjCID(), ch: cs}
	tm.send = func(now int64) item { return item{v: mk(now), h: mix(hTimer, uint64(now))} }
	e.timers = append(e.timers, tm)
	t := &Timer{tm}
	t.Reset(d)
	return t
}

// TimerArms lists the durations every timer was armed with in this execution (NewTimer and Reset), in order.
func TimerArms() []int64 { return append([]int64(nil), E.timerArms...) }

func (t *Timer) Reset(d int64) bool {
	E.timerArms = append(E.timerArms, d)
	was := t.tm.armed
	if d < 0 {
		d = 0
	}
	if E.opts.SyncTimers {
		t.tm.ch.buf = nil
	}
	t.tm.armed = true
	t.tm.deadline = E.clock + d
	return was
}

func (t *Timer) Stop() bool {
	was := t.tm.armed
	t.tm.armed = false
	if E.opts.SyncTimers {
		t.tm.ch.buf = nil
	}
	return was
}
