#!/bin/sh
# Build the verification tools from files on disk only (offline).
set -e
cd "$(dirname "$0")"
. ./env.sh
mkdir -p bin evidence replays
go build -o bin/vxform ./tools/vxform
# warm the build cache: instrumented checker and plain checker
T=$(mktemp -d /tmp/verif-setup.XXXXXX)
bin/vxform -repo "${VERIF_REPO:-/repo}" -out "$T/x" -vrt "$PWD/vrt"
go build -overlay "$T/x/overlay.json" -o "$T/vschk" ./cmd/vschk
[ -d cmd/sqchk ] && go build -o "$T/sqchk" ./cmd/sqchk
rm -rf "$T"
echo setup ok
