#!/bin/sh
# Build the verification tools from files on disk only (offline).
set -e
cd "$(dirname "$0")"
. ./env.sh
mkdir -p bin evidence replays
go build -o bin/vxform ./tools/vxform
