// Package racepass holds the free-running race-detector passes. They are AUXILIARY to the exhaustive
// scheduler checks: the controlled scheduler switches only at synchronisation operations, so unsynchronised
// accesses to plain memory are invisible to it (and its hand-offs would blind the race detector). These tests
// run the same kind of bodies natively under `go test -race`; a reported race is a true positive, silence
// proves nothing (sampling). ./check C13 runs them and reports a race as a violation.
package racepass

import (
	"context"
	"fmt"
	"io"
	"net/http"
	"sync"
	"sync/atomic"
	"testing"
	"time"

	sse "github.com/tmaxmax/go-sse"
)

type feedBody struct {
	ch   chan string
	rest string
	ctx  context.Context
}

func (b *feedBody) Read(p []byte) (int, error) {
	if b.rest == "" {
		select {
		case s, ok := <-b.ch:
			if !ok {
				return 0, io.EOF
			}
			b.rest = s
		case <-b.ctx.Done():
			return 0, b.ctx.Err()
		}
	}
	n := copy(p, b.rest)
	b.rest = b.rest[n:]
	return n, nil
}
func (b *feedBody) Close() error { return nil }

type feedRT struct{ body io.ReadCloser }

func (t feedRT) RoundTrip(req *http.Request) (*http.Response, error) {
	return &http.Response{StatusCode: 200, Status: "200 OK", Proto: "HTTP/1.1", ProtoMajor: 1, ProtoMinor: 1,
		Header: http.Header{"Content-Type": {"text/event-stream"}}, Body: t.body, Request: req}, nil
}

// TestC13SubscribeWhileConnected: eight goroutines subscribe (all four kinds), unsubscribe (also twice) while the
// connection dispatches a stream of events of three types.
func TestC13SubscribeWhileConnected(t *testing.T) {
	ctx, cancel := context.WithCancel(context.Background())
	defer cancel()
	body := &feedBody{ch: make(chan string, 16), ctx: ctx}
	req, _ := http.NewRequestWithContext(ctx, http.MethodGet, "http://verif.invalid/", http.NoBody)
	cl := sse.Client{HTTPClient: &http.Client{Transport: feedRT{body}}, Backoff: sse.Backoff{MaxRetries: -1}}
	conn := cl.NewConnection(req)
	var delivered atomic.Int64
	done := make(chan error, 1)
	go func() { done <- conn.Connect() }()
	var wg sync.WaitGroup
	stop := make(chan struct{})
	for g := 0; g < 8; g++ {
		wg.Add(1)
		go func(g int) {
			defer wg.Done()
			for i := 0; ; i++ {
				select {
				case <-stop:
					return
				default:
				}
				cb := func(sse.Event) { delivered.Add(1) }
				var rm sse.EventCallbackRemover
				switch (g + i) % 4 {
				case 0:
					rm = conn.SubscribeEvent("a", cb)
				case 1:
					rm = conn.SubscribeEvent("b", cb)
				case 2:
					rm = conn.SubscribeMessages(cb)
				case 3:
					rm = conn.SubscribeToAll(cb)
				}
				if i%3 == 0 {
					time.Sleep(50 * time.Microsecond)
				}
				rm()
				if i%5 == 0 {
					rm()
				}
			}
		}(g)
	}
	deadline := time.Now().Add(400 * time.Millisecond)
	for i := 0; time.Now().Before(deadline); i++ {
		typ := []string{"", "event: a\n", "event: b\n"}[i%3]
		body.ch <- fmt.Sprintf("%sdata: %d\n\n", typ, i)
	}
	close(stop)
	wg.Wait()
	close(body.ch)
	<-done
	t.Logf("callback invocations: %d", delivered.Load())
}

// TestC13SlowCallback: subscribe and unsubscribe while a dispatch is held open by a slow callback.
func TestC13SlowCallback(t *testing.T) {
	ctx, cancel := context.WithCancel(context.Background())
	defer cancel()
	body := &feedBody{ch: make(chan string, 4), ctx: ctx}
	req, _ := http.NewRequestWithContext(ctx, http.MethodGet, "http://verif.invalid/", http.NoBody)
	cl := sse.Client{HTTPClient: &http.Client{Transport: feedRT{body}}, Backoff: sse.Backoff{MaxRetries: -1}}
	conn := cl.NewConnection(req)
	entered := make(chan struct{}, 64)
	conn.SubscribeToAll(func(sse.Event) {
		entered <- struct{}{}
		time.Sleep(2 * time.Millisecond)
	})
	done := make(chan error, 1)
	go func() { done <- conn.Connect() }()
	for i := 0; i < 20; i++ {
		body.ch <- fmt.Sprintf("data: %d\n\n", i)
		<-entered
		var wg sync.WaitGroup
		for g := 0; g < 4; g++ {
			wg.Add(1)
			go func() {
				defer wg.Done()
				rm := conn.SubscribeToAll(func(sse.Event) {})
				rm2 := conn.SubscribeMessages(func(sse.Event) {})
				rm()
				rm2()
			}()
		}
		wg.Wait()
	}
	close(body.ch)
	<-done
}
