package msg

import (
	"encoding/json"
	"fmt"
	"math"
	"strings"
	"time"

	sse "github.com/tmaxmax/go-sse"

	"verif/ev"
	"verif/sq/ref"
	"verif/sq/sqrun"
)

// A call of the message-building API.
type Call struct {
	Kind string   `json:"kind"` // "data", "comment"
	Args []string `json:"args"`
}

type MsgSpec struct {
	Calls   []Call `json:"calls"`
	ID      string `json:"id"`
	HasID   bool   `json:"has_id"`
	Type    string `json:"type"`
	HasType bool   `json:"has_type"`
	Retry   int64  `json:"retry_ns"`
}

func (m MsgSpec) Build() *sse.Message {
	out := &sse.Message{Retry: time.Duration(m.Retry)}
	for _, c := range m.Calls {
		if c.Kind == "data" {
			out.AppendData(c.Args...)
		} else {
			out.AppendComment(c.Args...)
		}
	}
	if m.HasID {
		out.ID = sse.ID(m.ID)
	}
	if m.HasType {
		out.Type = sse.Type(m.Type)
	}
	return out
}

func (m MsgSpec) dataLines() []string {
	var out []string
	for _, c := range m.Calls {
		if c.Kind == "data" {
			for _, a := range c.Args {
				out = append(out, Lines(a)...)
			}
		}
	}
	return out
}

func (m MsgSpec) commentLines() []string {
	var out []string
	for _, c := range m.Calls {
		if c.Kind != "data" {
			for _, a := range c.Args {
				out = append(out, Lines(a)...)
			}
		}
	}
	return out
}

var c02Tokens = []string{"\n", "\r", "a", ":", " ", "data: x", "id: z", "event: e", "retry: 5", "\xEF\xBB\xBF", "\x00"}

var retries = []int64{-1, 0, int64(999 * time.Microsecond), int64(time.Millisecond), int64(1500 * time.Microsecond), int64(time.Second), math.MaxInt64, -int64(time.Millisecond), -int64(time.Hour), math.MinInt64}

// expected computes what a sequence of messages must decode to. strict: a spec parser (events only for
// messages with data); otherwise go-sse's own Read (also for messages that set an ID or a type).
func expected(ms []MsgSpec, strict bool) []ref.Event {
	var out []ref.Event
	last := ""
	for _, m := range ms {
		idCounts := m.HasID && !strings.Contains(m.ID, "\x00")
		if idCounts {
			last = m.ID
		}
		dl := m.dataLines()
		if len(dl) > 0 || (!strict && (idCounts || m.HasType)) {
			e := ref.Event{LastEventID: last, Data: strings.Join(dl, "\n")}
			if m.HasType {
				e.Type = m.Type
			}
			out = append(out, e)
		}
	}
	return out
}

func checkSequence(k *collector, ms []MsgSpec) {
	k.cases.Add(1)
	var wire strings.Builder
	for _, m := range ms {
		wire.WriteString(m.Build().String())
	}
	w := wire.String()
	wantStrict := expected(ms, true)
	if len(wantStrict) > 0 {
		k.nontriv.Add(1)
	}
	got := ref.Interpret(w, ref.Mode{Strict: true})
	if v := diffEvents(got.Events, wantStrict); v != "" || got.UnterminatedTail {
		k.fail("C02: a spec-conforming parser decodes something else than what was appended", fmt.Sprintf("messages %+v encode to %q; strict WHATWG interpretation: %s (unterminated tail: %v)", ms, w, v, got.UnterminatedTail), ms)
		return
	}
	var own []ref.Event
	var rerr error
	sse.Read(strings.NewReader(w), nil)(func(e sse.Event, err error) bool {
		if err != nil {
			rerr = err
			return false
		}
		own = append(own, ref.Event{LastEventID: e.LastEventID, Type: e.Type, Data: e.Data})
		return true
	})
	if v := diffEvents(own, expected(ms, false)); v != "" || rerr != nil {
		k.fail("C02: sse.Read decodes something else than what was appended", fmt.Sprintf("messages %+v encode to %q; sse.Read: %s (error %v)", ms, w, v, rerr), ms)
	}
}

// checkClone builds a message with all but the last call, clones it, applies the last call to the clone and
// a different call to the original: both must decode to their own content (no leak between them).
func checkClone(k *collector, cs []Call) {
	if len(cs) < 2 {
		return
	}
	a := MsgSpec{Calls: cs[:len(cs)-1]}
	orig := a.Build()
	cl := orig.Clone()
	last := cs[len(cs)-1]
	if last.Kind == "data" {
		cl.AppendData(last.Args...)
	} else {
		cl.AppendComment(last.Args...)
	}
	orig.AppendData("only-in-original")
	wantClone := MsgSpec{Calls: cs}.Build().String()
	wantOrig := MsgSpec{Calls: append(append([]Call{}, cs[:len(cs)-1]...), Call{"data", []string{"only-in-original"}})}.Build().String()
	k.cases.Add(1)
	if cl.String() != wantClone || orig.String() != wantOrig {
		k.fail("C02: appending to a clone and to its original leaks between the two messages", fmt.Sprintf("calls %+v: clone encodes %q (want %q), original %q (want %q)", cs, cl.String(), wantClone, orig.String(), wantOrig), cs)
	}
}

func diffEvents(got, want []ref.Event) string {
	if len(got) != len(want) {
		return fmt.Sprintf("%d events %+v, want %d events %+v", len(got), got, len(want), want)
	}
	for i := range want {
		if got[i] != want[i] {
			return fmt.Sprintf("event %d is %+v, want %+v", i, got[i], want[i])
		}
	}
	return ""
}

func validField(s string) bool { return !multiline(s) }

func init() {
	C02.Replay = replayer("C02", func(k *collector, raw []byte) {
		var ms []MsgSpec
		var cs []Call
		var str string
		switch {
		case json.Unmarshal(raw, &ms) == nil && len(ms) > 0 && (len(ms[0].Calls) > 0 || ms[0].HasID || ms[0].HasType):
			checkSequence(k, ms)
		case json.Unmarshal(raw, &cs) == nil && len(cs) > 0:
			checkClone(k, cs)
		case json.Unmarshal(raw, &str) == nil:
			_, e1 := sse.NewID(str)
			_, e2 := sse.NewType(str)
			if (e1 != nil) != multiline(str) || (e2 != nil) != multiline(str) {
				k.fail("C02: NewID/NewType acceptance differs from 'contains no CR/LF'", fmt.Sprintf("NewID(%q) error %v, NewType error %v", str, e1, e2), str)
			}
		}
	})
}

var C02 = &sqrun.Check{ID: "C02", QuickBudget: 60, ThoroughBudget: 600,
	Run: func(c *sqrun.Ctx) *sqrun.Outcome {
		k := &collector{c: c}
		L := 4
		if c.Thorough {
			L = 5
		}
		payloads := Strings(c02Tokens, L)
		// NewID/NewType reject exactly the strings containing CR or LF
		for _, p := range payloads {
			k.cases.Add(1)
			_, e1 := sse.NewID(p)
			_, e2 := sse.NewType(p)
			if (e1 != nil) != multiline(p) || (e2 != nil) != multiline(p) {
				k.fail("C02: NewID/NewType acceptance differs from 'contains no CR/LF'", fmt.Sprintf("NewID(%q) error %v, NewType error %v, multiline=%v", p, e1, e2, multiline(p)), p)
			}
		}
		var fields []string
		for _, p := range Strings(c02Tokens, 2) {
			if validField(p) {
				fields = append(fields, p)
			}
		}
		// (1) every payload string in every role, alone and next to a plain neighbour on either side
		plain := MsgSpec{Calls: []Call{{"data", []string{"p"}}}, ID: "n", HasID: true, Type: "t", HasType: true}
		k.parallel(len(payloads), func(i int) {
			p := payloads[i]
			var specs []MsgSpec
			specs = append(specs, MsgSpec{Calls: []Call{{"data", []string{p}}}}, MsgSpec{Calls: []Call{{"comment", []string{p}}}},
				MsgSpec{Calls: []Call{{"comment", []string{p}}, {"data", []string{"d"}}}}, MsgSpec{Calls: []Call{{"data", []string{"d", p}}}},
				MsgSpec{Calls: []Call{{"data", []string{p, p}}}})
			if validField(p) {
				specs = append(specs, MsgSpec{Calls: []Call{{"data", []string{"d"}}}, ID: p, HasID: true}, MsgSpec{Calls: []Call{{"data", []string{"d"}}}, Type: p, HasType: true},
					MsgSpec{ID: p, HasID: true}, MsgSpec{Type: p, HasType: true}, MsgSpec{Calls: []Call{{"comment", []string{"c"}}}, ID: p, HasID: true, Type: p, HasType: true})
			}
			for _, s := range specs {
				checkSequence(k, []MsgSpec{s})
				checkSequence(k, []MsgSpec{plain, s})
				checkSequence(k, []MsgSpec{s, plain})
				checkSequence(k, []MsgSpec{plain, s, plain})
			}
		})
		// (2) programs of <= 3 calls over a small representative set
		rep := []string{"", "a", "\n", "a\rb", " a", "data: x\n", "\r\n\r\n", ":", "id: z", "a\n\nb", "\xEF\xBB\xBFa", "event: e\rretry: 5"}
		var calls []Call
		for _, s := range rep {
			calls = append(calls, Call{"data", []string{s}}, Call{"comment", []string{s}})
		}
		for _, s := range rep[:6] {
			for _, t := range rep[:6] {
				calls = append(calls, Call{"data", []string{s, t}})
			}
		}
		nc := len(calls)
		depth := 3
		total := 1
		for i := 0; i < depth; i++ {
			total *= nc
		}
		if c.Thorough {
			total *= nc
			depth = 4
		}
		k.parallel(total, func(i int) {
			var cs []Call
			for d := 0; d < depth; d++ {
				cs = append(cs, calls[i%nc])
				i /= nc
			}
			checkSequence(k, []MsgSpec{{Calls: cs}})
			// the same program continued on a clone: the original must still encode the same
			checkClone(k, cs)
			checkSequence(k, []MsgSpec{{Calls: cs, ID: "id: z", HasID: true, Type: " e", HasType: true, Retry: int64(time.Second)}, plain})
		})
		// (3) ID x Type x Retry crossed fully over single-call messages
		nf := len(fields)
		k.parallel(nf*nf, func(i int) {
			id, ty := fields[i%nf], fields[i/nf]
			for _, r := range retries {
				for _, cs := range [][]Call{nil, {{"data", []string{"x\ry"}}}, {{"comment", []string{"c"}}}} {
					for _, hasID := range []bool{false, true} {
						checkSequence(k, []MsgSpec{{Calls: cs, ID: id, HasID: hasID, Type: ty, HasType: true, Retry: r}, plain})
					}
				}
			}
		})
		// (4) sequences: ordered pairs (thorough: triples) from a representative message set
		var set []MsgSpec
		for _, p := range []string{"a", "\n", "a\r\nb", "id: z\n\n", "", " "} {
			for _, id := range []string{"", "i", "\x00"} {
				for _, ty := range []string{"", "t"} {
					set = append(set, MsgSpec{Calls: []Call{{"data", []string{p}}}, ID: id, HasID: id != "", Type: ty, HasType: ty != ""},
						MsgSpec{Calls: []Call{{"comment", []string{p}}}, ID: id, HasID: id != "", Retry: int64(time.Second)})
				}
			}
		}
		ns := len(set)
		seqN := ns * ns
		if c.Thorough {
			seqN *= ns
		}
		k.parallel(seqN, func(i int) {
			seq := []MsgSpec{set[i%ns], set[i/ns%ns]}
			if c.Thorough {
				seq = append(seq, set[i/ns/ns])
			}
			checkSequence(k, seq)
		})
		cov := ev.Coverage{"evaluations": k.cases.Load(), "distinct_nontrivial": k.nontriv.Load(), "exhaustive": k.exhaustive(),
			"payload_strings": len(payloads), "field_strings": len(fields), "call_alphabet": nc, "message_set": ns,
			"samples": []any{MsgSpec{Calls: []Call{{"data", []string{"a\rb", "id: z"}}}, ID: "x", HasID: true}, []MsgSpec{set[3], set[10]}},
			"rule":    fmt.Sprintf("(1) every string of <= %d tokens over %q as data, comment, ID and type (where NewID/NewType accept it), alone and between plain neighbours; (2) every program of <= %d calls over a %d-call alphabet (AppendData with one/two arguments, AppendComment) on a 12-string representative set; (3) ID x Type over all %d single-line strings of <= 2 tokens x 7 Retry values; (4) every ordered pair (thorough: triple) of %d representative messages, concatenated. Each wire text is decoded by the strict WHATWG reference and by sse.Read and compared with the expectation computed from the API calls (independent line splitter). Non-trivial = the expectation contains at least one event.", L, c02Tokens, depth, nc, nf, ns)}
		return &sqrun.Outcome{Level: "exploration", Coverage: cov, Assumptions: []string{
			"an ID containing NUL is encoded as given and ignored by conforming parsers (the rest of the event must be intact); this is the protocol's rule, not counted as 'ID altered'",
			"go-sse's own parser dispatches an event also for a message that only sets an ID or a type (documented adaptation); the strict reference only for messages with data",
		}}
	},
}
