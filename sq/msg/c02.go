package msg

import (
	"bytes"
	"encoding/json"
	"errors"
	"fmt"
	"io"
	"net/http"
	"net/http/httptest"
	"math"
	"strconv"
	"strings"
	"testing/iotest"
	"time"

	sse "github.com/tmaxmax/go-sse"

	"verif/ev"
	"verif/sq/ref"
	"verif/sq/sqrun"
)

// A call of the message-building API.
type Call struct {
	Kind string   `json:"kind"` // "data", "comment"
	Args []string `json:"args"`
}

type MsgSpec struct {
	Calls   []Call `json:"calls"`
	ID      string `json:"id"`
	HasID   bool   `json:"has_id"`
	Type    string `json:"type"`
	HasType bool   `json:"has_type"`
	Retry   int64  `json:"retry_ns"`
}

func (m MsgSpec) Build() *sse.Message {
	out := &sse.Message{Retry: time.Duration(m.Retry)}
	for _, c := range m.Calls {
		if c.Kind == "data" {
			out.AppendData(c.Args...)
		} else {
			out.AppendComment(c.Args...)
		}
	}
	if m.HasID {
		out.ID = sse.ID(m.ID)
	}
	if m.HasType {
		out.Type = sse.Type(m.Type)
	}
	return out
}

func (m MsgSpec) dataLines() []string {
	var out []string
	for _, c := range m.Calls {
		if c.Kind == "data" {
			for _, a := range c.Args {
				out = append(out, Lines(a)...)
			}
		}
	}
	return out
}

func (m MsgSpec) commentLines() []string {
	var out []string
	for _, c := range m.Calls {
		if c.Kind != "data" {
			for _, a := range c.Args {
				out = append(out, Lines(a)...)
			}
		}
	}
	return out
}

var c02Tokens = []string{"\n", "\r", "a", ":", " ", "data: x", "id: z", "event: e", "retry: 5", "\xEF\xBB\xBF", "\x00"}

var retries = []int64{-1, 0, int64(999 * time.Microsecond), int64(time.Millisecond), int64(1500 * time.Microsecond), int64(time.Second), math.MaxInt64, -int64(time.Millisecond), -int64(time.Hour), math.MinInt64}

// expected computes what a sequence of messages must decode to. strict: a spec parser (events only for
// messages with data); otherwise go-sse's own Read (also for messages that set an ID or a type).
func expected(ms []MsgSpec, strict bool) []ref.Event {
	var out []ref.Event
	last := ""
	for _, m := range ms {
		idCounts := m.HasID && !strings.Contains(m.ID, "\x00")
		if idCounts {
			last = m.ID
		}
		dl := m.dataLines()
		if len(dl) > 0 || (!strict && (idCounts || m.HasType)) {
			e := ref.Event{LastEventID: last, Data: strings.Join(dl, "\n")}
			if m.HasType {
				e.Type = m.Type
			}
			out = append(out, e)
		}
	}
	return out
}

func checkSequence(k *collector, ms []MsgSpec) {
	var wire strings.Builder
	for _, m := range ms {
		wire.WriteString(m.Build().String())
	}
	checkWire(k, ms, wire.String(), nil, ms)
}

// checkWire decodes a wire text with the strict reference and with sse.Read (through rd, if given, so that
// the parser sees the text in pieces) and compares both with what the messages ms must decode to. All
// events are judged only after the whole stream has been read: a decoded event must stay what it was.
func checkWire(k *collector, ms []MsgSpec, w string, rd func(string) io.Reader, replay any) bool {
	k.cases.Add(1)
	wantStrict := expected(ms, true)
	if len(wantStrict) > 0 {
		k.nontriv.Add(1)
	}
	got := ref.Interpret(w, ref.Mode{Strict: true})
	if v := diffEvents(got.Events, wantStrict); v != "" || got.UnterminatedTail {
		k.fail("C02: a spec-conforming parser decodes something else than what was appended", fmt.Sprintf("messages %s encode to %s; strict WHATWG interpretation: %s (unterminated tail: %v)", short(fmt.Sprintf("%+v", ms)), short(fmt.Sprintf("%q", w)), v, got.UnterminatedTail), replay)
		return false
	}
	var src io.Reader = strings.NewReader(w)
	if rd != nil {
		src = rd(w)
	}
	var own []ref.Event
	var rerr error
	sse.Read(src, nil)(func(e sse.Event, err error) bool {
		if err != nil {
			rerr = err
			return false
		}
		own = append(own, ref.Event{LastEventID: e.LastEventID, Type: e.Type, Data: e.Data})
		return true
	})
	if v := diffEvents(own, expected(ms, false)); v != "" || rerr != nil {
		k.fail("C02: sse.Read decodes something else than what was appended", fmt.Sprintf("messages %s encode to %s; sse.Read: %s (error %v)", short(fmt.Sprintf("%+v", ms)), short(fmt.Sprintf("%q", w)), v, rerr), replay)
		return false
	}
	return true
}

func short(s string) string {
	if len(s) > 600 {
		return s[:300] + " ... " + s[len(s)-200:]
	}
	return s
}

// LongCase is a stream made of a few messages under test followed by Fill plain messages without ID and
// type (so the ID of the last message under test stays the stream's last event ID to the end), read through
// the named reader. Long enough streams make the parser's input buffer fill up, shift and grow while
// earlier events are still held by the caller.
type LongCase struct {
	Head   []MsgSpec `json:"head"`
	Pad    int       `json:"pad"`
	Fill   int       `json:"fill"`
	Reader string    `json:"reader"`
}

var longReaders = map[string]func(string) io.Reader{
	"whole":   func(s string) io.Reader { return strings.NewReader(s) },
	"onebyte": func(s string) io.Reader { return iotest.OneByteReader(strings.NewReader(s)) },
	"chunk61": func(s string) io.Reader { return &chunkReader{s: s, n: 61} },
}

type chunkReader struct {
	s string
	n int
}

func (c *chunkReader) Read(p []byte) (int, error) {
	if len(c.s) == 0 {
		return 0, io.EOF
	}
	n := min(c.n, len(p), len(c.s))
	copy(p, c.s[:n])
	c.s = c.s[n:]
	return n, nil
}

func (lc LongCase) specs() []MsgSpec {
	ms := append([]MsgSpec{}, lc.Head...)
	if lc.Pad > 0 {
		ms = append(ms, MsgSpec{Calls: []Call{{"data", []string{strings.Repeat("p", lc.Pad)}}}})
	}
	for i := 0; i < lc.Fill; i++ {
		ms = append(ms, MsgSpec{Calls: []Call{{"data", []string{"filler payload number " + strconv.Itoa(i)}}}})
	}
	return ms
}

func checkLong(k *collector, lc LongCase) {
	ms := lc.specs()
	var wire strings.Builder
	for _, m := range ms {
		wire.WriteString(m.Build().String())
	}
	checkWire(k, ms, wire.String(), longReaders[lc.Reader], lc)
}

// SessCase: message A is sent through one Session whose writer fails (Fault: "" none, "flush" the header flush
// fails, "write1"/"write2" its first/second Write fails), then message B through another Session on a healthy
// writer (same goroutine). B's client must read exactly B - whatever became of A.
type SessCase struct {
	A, B  MsgSpec
	Fault string `json:"fault"`
}

type sessWriter struct {
	hdr         http.Header
	body        bytes.Buffer
	failFlush   bool
	failWriteAt int
	writes      int
}

var errSess = errors.New("scripted session writer failure")

func (w *sessWriter) Header() http.Header { return w.hdr }
func (w *sessWriter) WriteHeader(int)     {}
func (w *sessWriter) Write(p []byte) (int, error) {
	w.writes++
	if w.writes == w.failWriteAt {
		return 0, errSess
	}
	return w.body.Write(p)
}
func (w *sessWriter) FlushError() error {
	if w.failFlush {
		return errSess
	}
	return nil
}

func checkSess(k *collector, c SessCase) {
	req := httptest.NewRequest(http.MethodGet, "/", http.NoBody)
	wa := &sessWriter{hdr: http.Header{}, failFlush: c.Fault == "flush"}
	switch c.Fault {
	case "write1":
		wa.failWriteAt = 1
	case "write2":
		wa.failWriteAt = 2
	}
	if sa, err := sse.Upgrade(wa, req); err == nil {
		_ = sa.Send(c.A.Build())
		_ = sa.Flush()
	}
	wb := &sessWriter{hdr: http.Header{}}
	sb, err := sse.Upgrade(wb, req)
	if err != nil {
		k.fail("C02: Upgrade failed on a flushing writer", err.Error(), c)
		return
	}
	if err := sb.Send(c.B.Build()); err != nil {
		k.fail("C02: Send failed on a healthy writer", fmt.Sprintf("%+v: %v", c, err), c)
		return
	}
	_ = sb.Flush()
	checkWire(k, []MsgSpec{c.B}, wb.body.String(), nil, c)
}

// Hist is a history of operations on ONE Message value (op codes index histOps). The message is encoded at the
// end only (and where the history says so), so that state kept between encodings is exercised too.
type Hist struct {
	Ops []uint8 `json:"ops"`
}

var histOps = []string{"AppendData(a\rb)", "AppendData(\"\", c)", "AppendComment(n)", "ID=i<step>", "Type=t<step>", "Retry=<step>ms",
	"String()", "MarshalText()", "WriteTo(buffer)", "UnmarshalText(event u<step>)", "continue on Clone()", "UnmarshalText(data-only event)"}

func (h Hist) String() string {
	var ss []string
	for _, o := range h.Ops {
		ss = append(ss, histOps[o])
	}
	return "[" + strings.Join(ss, "; ") + "]"
}

func checkHist(k *collector, h Hist) {
	m := &sse.Message{}
	var model MsgSpec
	for step, o := range h.Ops {
		x := strconv.Itoa(step)
		switch o {
		case 0:
			m.AppendData("a\rb")
			model.Calls = append(model.Calls[:len(model.Calls):len(model.Calls)], Call{"data", []string{"a\rb"}})
		case 1:
			m.AppendData("", "c")
			model.Calls = append(model.Calls[:len(model.Calls):len(model.Calls)], Call{"data", []string{"", "c"}})
		case 2:
			m.AppendComment("n")
			model.Calls = append(model.Calls[:len(model.Calls):len(model.Calls)], Call{"comment", []string{"n"}})
		case 3:
			m.ID = sse.ID("i" + x)
			model.ID, model.HasID = "i"+x, true
		case 4:
			m.Type = sse.Type("t" + x)
			model.Type, model.HasType = "t"+x, true
		case 5:
			m.Retry = time.Duration(step+1) * time.Millisecond
			model.Retry = int64(m.Retry)
		case 6:
			_ = m.String()
		case 7:
			_, _ = m.MarshalText()
		case 8:
			var b bytes.Buffer
			_, _ = m.WriteTo(&b)
		case 9:
			// a relay decoding the next event into the message it reuses: everything is overwritten
			if err := m.UnmarshalText([]byte("id: u" + x + "\ndata: du" + x + "\n: cu\nevent: tu\nretry: 7\ndata: dv\n\n")); err != nil {
				k.fail("C02: UnmarshalText rejects a well-formed event", fmt.Sprintf("history %s: %v", h, err), h)
				return
			}
			model = MsgSpec{Calls: []Call{{"data", []string{"du" + x}}, {"comment", []string{"cu"}}, {"data", []string{"dv"}}}, ID: "u" + x, HasID: true, Type: "tu", HasType: true, Retry: int64(7 * time.Millisecond)}
		case 10:
			m = m.Clone()
		case 11:
			// an event that sets nothing but data: ID, type and retry of whatever the message held before are gone
			if err := m.UnmarshalText([]byte("data: w" + x + "\n\n")); err != nil {
				k.fail("C02: UnmarshalText rejects a well-formed event", fmt.Sprintf("history %s: %v", h, err), h)
				return
			}
			model = MsgSpec{Calls: []Call{{"data", []string{"w" + x}}}}
		}
	}
	// the message, between two plain neighbours, on one stream
	plain := MsgSpec{Calls: []Call{{"data", []string{"p"}}}, ID: "n", HasID: true, Type: "t", HasType: true}
	w := plain.Build().String() + m.String() + plain.Build().String()
	if checkWire(k, []MsgSpec{plain, model, plain}, w, nil, h) {
		// the retry field is not part of ref.Event: compare it on the wire
		wantRetry := model.Retry >= int64(time.Millisecond)
		got := strings.Contains(m.String(), "retry: "+strconv.FormatInt(model.Retry/int64(time.Millisecond), 10)+"\n")
		if !wantRetry {
			got = strings.HasPrefix(m.String(), "retry:") || strings.Contains(m.String(), "\nretry:")
		}
		if got != wantRetry {
			k.fail("C02: the retry field on the wire is not the one set", fmt.Sprintf("history %s: message encodes to %q, Retry set to %v", h, m.String(), time.Duration(model.Retry)), h)
		}
	}
}

// checkClone builds a message with all but the last call, clones it, applies the last call to the clone and
// a different call to the original: both must decode to their own content (no leak between them).
func checkClone(k *collector, cs []Call) {
	if len(cs) < 2 {
		return
	}
	a := MsgSpec{Calls: cs[:len(cs)-1]}
	orig := a.Build()
	cl := orig.Clone()
	last := cs[len(cs)-1]
	if last.Kind == "data" {
		cl.AppendData(last.Args...)
	} else {
		cl.AppendComment(last.Args...)
	}
	orig.AppendData("only-in-original")
	wantClone := MsgSpec{Calls: cs}.Build().String()
	wantOrig := MsgSpec{Calls: append(append([]Call{}, cs[:len(cs)-1]...), Call{"data", []string{"only-in-original"}})}.Build().String()
	k.cases.Add(1)
	if cl.String() != wantClone || orig.String() != wantOrig {
		k.fail("C02: appending to a clone and to its original leaks between the two messages", fmt.Sprintf("calls %+v: clone encodes %q (want %q), original %q (want %q)", cs, cl.String(), wantClone, orig.String(), wantOrig), cs)
	}
}

func diffEvents(got, want []ref.Event) string {
	if len(got) != len(want) {
		return fmt.Sprintf("%d events %+v, want %d events %+v", len(got), got, len(want), want)
	}
	for i := range want {
		if got[i] != want[i] {
			return fmt.Sprintf("event %d is %+v, want %+v", i, got[i], want[i])
		}
	}
	return ""
}

func validField(s string) bool { return !multiline(s) }

func init() {
	C02.Replay = replayer("C02", func(k *collector, raw []byte) {
		var ms []MsgSpec
		var cs []Call
		var str string
		var lc LongCase
		var h Hist
		var sc SessCase
		switch {
		case json.Unmarshal(raw, &sc) == nil && (len(sc.B.Calls) > 0 || sc.B.HasID || sc.B.HasType):
			checkSess(k, sc)
		case json.Unmarshal(raw, &lc) == nil && lc.Reader != "":
			checkLong(k, lc)
		case json.Unmarshal(raw, &h) == nil && len(h.Ops) > 0:
			checkHist(k, h)
		case json.Unmarshal(raw, &ms) == nil && len(ms) > 0 && (len(ms[0].Calls) > 0 || ms[0].HasID || ms[0].HasType):
			checkSequence(k, ms)
		case json.Unmarshal(raw, &cs) == nil && len(cs) > 0:
			checkClone(k, cs)
		case json.Unmarshal(raw, &str) == nil:
			_, e1 := sse.NewID(str)
			_, e2 := sse.NewType(str)
			if (e1 != nil) != multiline(str) || (e2 != nil) != multiline(str) {
				k.fail("C02: NewID/NewType acceptance differs from 'contains no CR/LF'", fmt.Sprintf("NewID(%q) error %v, NewType error %v", str, e1, e2), str)
			}
		}
	})
}

var C02 = &sqrun.Check{ID: "C02", QuickBudget: 60, ThoroughBudget: 600,
	Run: func(c *sqrun.Ctx) *sqrun.Outcome {
		k := &collector{c: c}
		L := 4
		if c.Thorough {
			L = 5
		}
		payloads := Strings(c02Tokens, L)
		// NewID/NewType reject exactly the strings containing CR or LF
		for _, p := range payloads {
			k.cases.Add(1)
			_, e1 := sse.NewID(p)
			_, e2 := sse.NewType(p)
			if (e1 != nil) != multiline(p) || (e2 != nil) != multiline(p) {
				k.fail("C02: NewID/NewType acceptance differs from 'contains no CR/LF'", fmt.Sprintf("NewID(%q) error %v, NewType error %v, multiline=%v", p, e1, e2, multiline(p)), p)
			}
		}
		// the same through the JSON route, also with the raw bytes between quotes (what a lenient decoder hands over):
		// whatever comes out set must be a single line and travel as itself
		for _, p := range payloads {
			if strings.ContainsAny(p, "\"\\") {
				continue
			}
			k.cases.Add(1)
			var id sse.EventID
			if err := id.UnmarshalJSON([]byte("\"" + p + "\"")); err == nil && id.IsSet() {
				if multiline(id.String()) {
					k.fail("C02: an ID accepted through UnmarshalJSON contains CR or LF", fmt.Sprintf("UnmarshalJSON(%q) -> %q", "\""+p+"\"", id.String()), p)
					break
				}
			}
		}
		var fields []string
		for _, p := range Strings(c02Tokens, 2) {
			if validField(p) {
				fields = append(fields, p)
			}
		}
		// (1) every payload string in every role, alone and next to a plain neighbour on either side
		plain := MsgSpec{Calls: []Call{{"data", []string{"p"}}}, ID: "n", HasID: true, Type: "t", HasType: true}
		k.parallel(len(payloads), func(i int) {
			p := payloads[i]
			var specs []MsgSpec
			specs = append(specs, MsgSpec{Calls: []Call{{"data", []string{p}}}}, MsgSpec{Calls: []Call{{"comment", []string{p}}}},
				MsgSpec{Calls: []Call{{"comment", []string{p}}, {"data", []string{"d"}}}}, MsgSpec{Calls: []Call{{"data", []string{"d", p}}}},
				MsgSpec{Calls: []Call{{"data", []string{p, p}}}})
			if validField(p) {
				specs = append(specs, MsgSpec{Calls: []Call{{"data", []string{"d"}}}, ID: p, HasID: true}, MsgSpec{Calls: []Call{{"data", []string{"d"}}}, Type: p, HasType: true},
					MsgSpec{ID: p, HasID: true}, MsgSpec{Type: p, HasType: true}, MsgSpec{Calls: []Call{{"comment", []string{"c"}}}, ID: p, HasID: true, Type: p, HasType: true})
			}
			for _, s := range specs {
				checkSequence(k, []MsgSpec{s})
				checkSequence(k, []MsgSpec{plain, s})
				checkSequence(k, []MsgSpec{s, plain})
				checkSequence(k, []MsgSpec{plain, s, plain})
			}
		})
		// (2) programs of <= 3 calls over a small representative set
		rep := []string{"", "a", "\n", "a\rb", " a", "data: x\n", "\r\n\r\n", ":", "id: z", "a\n\nb", "\xEF\xBB\xBFa", "event: e\rretry: 5"}
		var calls []Call
		for _, s := range rep {
			calls = append(calls, Call{"data", []string{s}}, Call{"comment", []string{s}})
		}
		for _, s := range rep[:6] {
			for _, t := range rep[:6] {
				calls = append(calls, Call{"data", []string{s, t}})
			}
		}
		nc := len(calls)
		depth := 3
		total := 1
		for i := 0; i < depth; i++ {
			total *= nc
		}
		if c.Thorough {
			total *= nc
			depth = 4
		}
		k.parallel(total, func(i int) {
			var cs []Call
			for d := 0; d < depth; d++ {
				cs = append(cs, calls[i%nc])
				i /= nc
			}
			checkSequence(k, []MsgSpec{{Calls: cs}})
			// the same program continued on a clone: the original must still encode the same
			checkClone(k, cs)
			checkSequence(k, []MsgSpec{{Calls: cs, ID: "id: z", HasID: true, Type: " e", HasType: true, Retry: int64(time.Second)}, plain})
		})
		// (3) ID x Type x Retry crossed fully over single-call messages
		nf := len(fields)
		k.parallel(nf*nf, func(i int) {
			id, ty := fields[i%nf], fields[i/nf]
			for _, r := range retries {
				for _, cs := range [][]Call{nil, {{"data", []string{"x\ry"}}}, {{"comment", []string{"c"}}}} {
					for _, hasID := range []bool{false, true} {
						checkSequence(k, []MsgSpec{{Calls: cs, ID: id, HasID: hasID, Type: ty, HasType: true, Retry: r}, plain})
					}
				}
			}
		})
		// (4) sequences: ordered pairs (thorough: triples) from a representative message set
		var set []MsgSpec
		for _, p := range []string{"a", "\n", "a\r\nb", "id: z\n\n", "", " "} {
			for _, id := range []string{"", "i", "\x00"} {
				for _, ty := range []string{"", "t"} {
					set = append(set, MsgSpec{Calls: []Call{{"data", []string{p}}}, ID: id, HasID: id != "", Type: ty, HasType: ty != ""},
						MsgSpec{Calls: []Call{{"comment", []string{p}}}, ID: id, HasID: id != "", Retry: int64(time.Second)})
				}
			}
		}
		ns := len(set)
		seqN := ns * ns
		if c.Thorough {
			seqN *= ns
		}
		k.parallel(seqN, func(i int) {
			seq := []MsgSpec{set[i%ns], set[i/ns%ns]}
			if c.Thorough {
				seq = append(seq, set[i/ns/ns])
			}
			checkSequence(k, seq)
		})
		// (5) long streams: every representative message (and ordered pair) followed by 0..maxPad padding bytes and
		// enough plain messages to cycle the parser's input buffer several times, through three kinds of reader
		var longs []LongCase
		maxPad, fill := 48, 400
		if c.Thorough {
			maxPad, fill = 128, 3000
		}
		for _, rd := range []string{"whole", "onebyte", "chunk61"} {
			for i := range set {
				for pad := 0; pad <= maxPad; pad++ {
					longs = append(longs, LongCase{Head: []MsgSpec{set[i]}, Pad: pad, Fill: fill, Reader: rd})
				}
				for j := range set {
					longs = append(longs, LongCase{Head: []MsgSpec{set[i], set[j]}, Fill: fill, Reader: rd})
				}
			}
		}
		k.parallel(len(longs), func(i int) { checkLong(k, longs[i]) })
		// (6) histories of operations on one Message value, encodings, UnmarshalText and Clone included
		hdepth := 5
		if c.Thorough {
			hdepth = 7
		}
		var hists int64
		nh := len(histOps)
		for d := 1; d <= hdepth && k.exhaustive(); d++ {
			total := 1
			for i := 0; i < d; i++ {
				total *= nh
			}
			hists += int64(total)
			k.parallel(total, func(i int) {
				ops := make([]uint8, d)
				for j := range ops {
					ops[j] = uint8(i % nh)
					i /= nh
				}
				checkHist(k, Hist{Ops: ops})
			})
		}
		// (7) size family: every length of data line, comment line, ID and type up to maxSize
		maxSize := 300
		if c.Thorough {
			maxSize = 4500
		}
		k.parallel(maxSize+1, func(n int) {
			x := strings.Repeat("x", n)
			for _, sp := range []MsgSpec{
				{Calls: []Call{{"data", []string{x}}, {"data", []string{"second"}}}},
				{Calls: []Call{{"comment", []string{x}}, {"data", []string{"second", x}}}, ID: "i", HasID: true},
				{Calls: []Call{{"data", []string{"d"}}}, ID: x, HasID: true, Type: "t", HasType: true},
				{Calls: []Call{{"data", []string{"d"}}}, ID: "i", HasID: true, Type: x, HasType: true},
			} {
				checkSequence(k, []MsgSpec{plain, sp, plain})
			}
		})
		// (8) through Sessions: A over a failing writer, then B over a healthy one
		faults := []string{"", "flush", "write1", "write2"}
		k.parallel(ns*ns*len(faults), func(i int) {
			checkSess(k, SessCase{A: set[i%ns], B: set[i/ns%ns], Fault: faults[i/ns/ns]})
		})
		cov := ev.Coverage{"evaluations": k.cases.Load(), "distinct_nontrivial": k.nontriv.Load(), "exhaustive": k.exhaustive(),
			"size_family_max_length": maxSize, "long_streams": len(longs), "one_message_histories": hists, "history_depth": hdepth,
			"payload_strings": len(payloads), "field_strings": len(fields), "call_alphabet": nc, "message_set": ns,
			"samples": []any{MsgSpec{Calls: []Call{{"data", []string{"a\rb", "id: z"}}}, ID: "x", HasID: true}, []MsgSpec{set[3], set[10]}},
			"rule":    fmt.Sprintf("(1) every string of <= %d tokens over %q as data, comment, ID and type (where NewID/NewType accept it), alone and between plain neighbours; (2) every program of <= %d calls over a %d-call alphabet (AppendData with one/two arguments, AppendComment) on a 12-string representative set; (3) ID x Type over all %d single-line strings of <= 2 tokens x 7 Retry values; (4) every ordered pair (thorough: triple) of %d representative messages, concatenated; (5) every representative message and ordered pair followed by 0..%d padding bytes and %d plain messages (streams long enough to make the parser's buffer fill, shift and grow), read whole, byte by byte and in 61-byte chunks, all events compared after the stream has ended; (6) every history of <= %d operations from %q on ONE Message value, the result encoded between two plain neighbours; (7) data line, comment line, ID and type of every length 0..%d; (8) every ordered pair of representative messages sent through two Sessions, the first on a writer whose header flush / first / second Write fails, the second on a healthy one: the second client reads exactly the second message. Each wire text is decoded by the strict WHATWG reference and by sse.Read and compared with the expectation computed from the API calls (independent line splitter). Non-trivial = the expectation contains at least one event.", L, c02Tokens, depth, nc, nf, ns, maxPad, fill, hdepth, histOps, maxSize)}
		return &sqrun.Outcome{Level: "exploration", Coverage: cov, Assumptions: []string{
			"an ID containing NUL is encoded as given and ignored by conforming parsers (the rest of the event must be intact); this is the protocol's rule, not counted as 'ID altered'",
			"go-sse's own parser dispatches an event also for a message that only sets an ID or a type (documented adaptation); the strict reference only for messages with data",
		}}
	},
}
