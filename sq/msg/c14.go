package msg

import (
	"encoding/json"
	"fmt"
	"net/http"
	"net/http/httptest"
	"strings"

	sse "github.com/tmaxmax/go-sse"

	"verif/ev"
	"verif/sq/ref"
	"verif/sq/sqrun"
)

var c14Tokens = []string{"\n", "\r", "a", ":", " ", "\x00", "data: x"}
var c14Wire = []string{"\n", "\r", "id:", "event:", "a", " ", "data:x", "\xEF\xBB\xBF"}

// texts decoded immediately before the text under test (on the same goroutine): the result must not depend on them
var c14Before = []string{"data:x\n\n", "id:a\rdata:x\r\r", "\xEF\xBB\xBFdata:x\n\n", "\xEF\xBB\xBFid:a\r\n\r\n", "data:x"}

type fieldVal interface {
	IsSet() bool
	String() string
}

func panics(f func()) (p bool) {
	defer func() {
		if recover() != nil {
			p = true
		}
	}()
	f()
	return false
}

// wireSafe checks the consequence the property names: a message carrying the value decodes to exactly one
// event with no field the caller did not set.
func wireSafe(id sse.EventID, ty sse.EventType) string {
	m := &sse.Message{ID: id, Type: ty}
	m.AppendData("d")
	w := m.String()
	r := ref.Interpret(w, ref.Mode{Strict: true})
	if len(r.Events) != 1 || r.UnterminatedTail {
		return fmt.Sprintf("a message carrying it encodes to %q, which decodes to %d events", w, len(r.Events))
	}
	e := r.Events[0]
	wantID, wantType := "", ""
	if id.IsSet() && !strings.Contains(id.String(), "\x00") {
		wantID = id.String()
	}
	if ty.IsSet() {
		wantType = ty.String()
	}
	if e.Data != "d" || e.Type != wantType || e.LastEventID != wantID {
		return fmt.Sprintf("a message carrying it encodes to %q, which decodes to %+v", w, e)
	}
	return ""
}

type w14 struct{ httptest.ResponseRecorder }

var C14 = &sqrun.Check{ID: "C14", QuickBudget: 60, ThoroughBudget: 600,
	Run: func(c *sqrun.Ctx) *sqrun.Outcome {
		k := &collector{c: c}
		L, WL := 4, 5
		if c.Thorough {
			L, WL = 6, 7
		}
		inputs := Strings(c14Tokens, L)
		judge := func(route, in string, v fieldVal, err error, hasErr bool, asID bool) {
			k.cases.Add(1)
			bad := multiline(in)
			if bad {
				k.nontriv.Add(1)
			}
			fail := func(what string) {
				k.fail("C14: "+route+": "+what, fmt.Sprintf("%s with input %q: %s (IsSet=%v value=%q err=%v)", route, in, what, v.IsSet(), v.String(), err), map[string]string{"route": route, "input": in})
			}
			if v.IsSet() && multiline(v.String()) {
				fail("a set value contains CR or LF")
				return
			}
			if bad && v.IsSet() {
				fail("an input containing CR or LF left the value set")
				return
			}
			if bad && hasErr && err == nil {
				fail("an input containing CR or LF was accepted without an error")
				return
			}
			if !bad && hasErr && err != nil {
				fail("a single-line input was rejected")
				return
			}
			if !bad && hasErr && (!v.IsSet() || v.String() != in) {
				fail("a single-line input did not become the value")
				return
			}
			var msg string
			if asID {
				msg = wireSafe(v.(sse.EventID), sse.EventType{})
			} else {
				msg = wireSafe(sse.EventID{}, v.(sse.EventType))
			}
			if msg != "" {
				fail(msg)
			}
		}
		k.parallel(len(inputs), func(i int) {
			s := inputs[i]
			id, err := sse.NewID(s)
			judge("NewID", s, id, err, true, true)
			ty, err := sse.NewType(s)
			judge("NewType", s, ty, err, true, false)
			k.cases.Add(2)
			if p := panics(func() { _ = sse.ID(s) }); p != multiline(s) {
				k.fail("C14: ID() panics differently from 'input is multi-line'", fmt.Sprintf("ID(%q) panicked=%v", s, p), s)
			}
			if p := panics(func() { _ = sse.Type(s) }); p != multiline(s) {
				k.fail("C14: Type() panics differently from 'input is multi-line'", fmt.Sprintf("Type(%q) panicked=%v", s, p), s)
			}
			// UnmarshalText on a value that was set before: the input decides alone
			id2 := sse.ID("before")
			err = id2.UnmarshalText([]byte(s))
			judge("EventID.UnmarshalText", s, id2, err, true, true)
			ty2 := sse.Type("before")
			err = ty2.UnmarshalText([]byte(s))
			judge("EventType.UnmarshalText", s, ty2, err, true, false)
			// a buffer reused by the caller afterwards must not change the value
			buf := []byte(s)
			var id3 sse.EventID
			if id3.UnmarshalText(buf) == nil {
				for j := range buf {
					buf[j] = '\n'
				}
				judge("EventID.UnmarshalText (caller reuses its buffer afterwards)", s, id3, nil, false, true)
				if id3.String() != s {
					k.fail("C14: UnmarshalText keeps a reference to the caller's buffer", fmt.Sprintf("EventID.UnmarshalText(%q): the value changed to %q when the caller overwrote its buffer", s, id3.String()), s)
				}
			}
			// MarshalText hands out bytes the caller owns: overwriting them must not reach the value (the input is
			// copied to the heap first so that a value aliasing it could be overwritten at all)
			if !multiline(s) {
				hs := string(append([]byte(nil), s...))
				id6, ty6 := sse.ID(hs), sse.Type(hs)
				b1, _ := id6.MarshalText()
				b2, _ := ty6.MarshalText()
				k.cases.Add(2)
				if string(b1) != s || string(b2) != s {
					k.fail("C14: MarshalText does not return the value", fmt.Sprintf("ID/Type(%q).MarshalText() = %q / %q", s, b1, b2), s)
				}
				for j := range b1 {
					b1[j] = '\n'
				}
				for j := range b2 {
					b2[j] = '\r'
				}
				if id6.String() != s || ty6.String() != s {
					k.fail("C14: MarshalText hands out the value's own bytes", fmt.Sprintf("after the caller overwrote the result of MarshalText the ID %q reads %q and the type reads %q", s, id6.String(), ty6.String()), map[string]string{"route": "MarshalText", "input": s})
				} else {
					judge("EventID.MarshalText (caller overwrites the result)", s, id6, nil, false, true)
					judge("EventType.MarshalText (caller overwrites the result)", s, ty6, nil, false, false)
				}
			}
			// JSON
			js, _ := json.Marshal(s)
			docs := []string{string(js), strings.NewReplacer(`\n`, `\u000a`, `\r`, `\u000D`).Replace(string(js))}
			if !strings.ContainsAny(s, "\"\\") {
				// the method called directly with the raw bytes between quotes (not valid JSON if they contain control
				// characters - a lenient decoder may still pass it on): whatever it does, no multi-line value
				raw := "\"" + s + "\""
				idr, tyr := sse.ID("before"), sse.Type("before")
				_ = idr.UnmarshalJSON([]byte(raw))
				_ = tyr.UnmarshalJSON([]byte(raw))
				k.cases.Add(2)
				if (idr.IsSet() && multiline(idr.String())) || (tyr.IsSet() && multiline(tyr.String())) {
					k.fail("C14: UnmarshalJSON (raw token): a set value contains CR or LF", fmt.Sprintf("UnmarshalJSON(%q) called directly: ID %q (set %v), type %q (set %v)", raw, idr.String(), idr.IsSet(), tyr.String(), tyr.IsSet()), map[string]string{"route": "UnmarshalJSON raw", "input": s})
				}
			}
			for _, d := range docs {
				id4 := sse.ID("before")
				err := id4.UnmarshalJSON([]byte(d))
				judge("EventID.UnmarshalJSON", s, id4, err, true, true)
				ty4 := sse.Type("before")
				err = json.Unmarshal([]byte(d), &ty4)
				judge("json.Unmarshal into EventType", s, ty4, err, true, false)
			}
			// Scan
			for _, src := range []any{s, []byte(s)} {
				id5 := sse.ID("before")
				err := id5.Scan(src)
				judge(fmt.Sprintf("EventID.Scan(%T)", src), s, id5, err, true, true)
				ty5 := sse.Type("before")
				err = ty5.Scan(src)
				judge(fmt.Sprintf("EventType.Scan(%T)", src), s, ty5, err, true, false)
			}
			// Upgrade
			req := httptest.NewRequest(http.MethodGet, "/", http.NoBody)
			req.Header["Last-Event-Id"] = []string{s}
			sess, err := sse.Upgrade(httptest.NewRecorder(), req)
			if err != nil {
				k.fail("C14: Upgrade failed on a flushing writer", err.Error(), s)
				return
			}
			k.cases.Add(1)
			lid := sess.LastEventID
			switch {
			case multiline(s) || s == "":
				if lid.IsSet() {
					k.fail("C14: Upgrade: an empty or multi-line Last-Event-ID header became a set ID", fmt.Sprintf("header %q -> IsSet=%v value=%q", s, lid.IsSet(), lid.String()), s)
				}
			default:
				if !lid.IsSet() || lid.String() != s {
					k.fail("C14: Upgrade: a single-line Last-Event-ID header was not taken over", fmt.Sprintf("header %q -> IsSet=%v value=%q", s, lid.IsSet(), lid.String()), s)
				} else if m := wireSafe(lid, sse.EventType{}); m != "" {
					k.fail("C14: Upgrade: "+m, fmt.Sprintf("header %q", s), s)
				}
			}
		})
		// non-string documents and driver values
		for _, d := range []string{"null", "1", "{}", "[\"a\"]", "tru", ""} {
			k.cases.Add(1)
			id := sse.ID("before")
			err := id.UnmarshalJSON([]byte(d))
			if id.IsSet() || (d != "null" && err == nil) {
				k.fail("C14: UnmarshalJSON of a non-string document", fmt.Sprintf("document %q: IsSet=%v err=%v", d, id.IsSet(), err), d)
			}
		}
		for _, src := range []any{nil, int64(1), 1.5, true} {
			k.cases.Add(1)
			id := sse.ID("before")
			err := id.Scan(src)
			if id.IsSet() || (src != nil && err == nil) {
				k.fail("C14: Scan of a non-text driver value", fmt.Sprintf("value %v: IsSet=%v err=%v", src, id.IsSet(), err), fmt.Sprint(src))
			}
		}
		// Message.UnmarshalText on wire texts
		wires := Strings(c14Wire, WL)
		decode := func(w string) (string, *sse.Message, error) {
			var m sse.Message
			err := m.UnmarshalText([]byte(w))
			return fmt.Sprintf("err=%v id=%v/%q type=%v/%q retry=%v wire=%q", err != nil, m.ID.IsSet(), m.ID.String(), m.Type.IsSet(), m.Type.String(), m.Retry, m.String()), &m, err
		}
		k.parallel(len(wires), func(i int) {
			w := wires[i]
			k.cases.Add(1)
			base, m, err := decode(w)
			if (m.ID.IsSet() && multiline(m.ID.String())) || (m.Type.IsSet() && multiline(m.Type.String())) {
				k.fail("C14: Message.UnmarshalText produced a multi-line ID or type", fmt.Sprintf("wire %q -> ID %q type %q (err %v)", w, m.ID.String(), m.Type.String(), err), w)
				return
			}
			if err == nil && (m.ID.IsSet() || m.Type.IsSet()) {
				k.nontriv.Add(1)
				if msg := wireSafe(m.ID, m.Type); msg != "" {
					k.fail("C14: Message.UnmarshalText: "+msg, fmt.Sprintf("wire %q", w), w)
					return
				}
			}
			// the same text decoded right after another one: nothing may carry over from call to call
			for _, b := range c14Before {
				k.cases.Add(1)
				_, _, _ = decode(b)
				again, m2, _ := decode(w)
				if (m2.ID.IsSet() && multiline(m2.ID.String())) || (m2.Type.IsSet() && multiline(m2.Type.String())) {
					k.fail("C14: Message.UnmarshalText produced a multi-line ID or type", fmt.Sprintf("wire %q decoded right after %q -> ID %q type %q", w, b, m2.ID.String(), m2.Type.String()), []string{b, w})
					return
				}
				if again != base {
					k.fail("C14: Message.UnmarshalText depends on what was decoded before", fmt.Sprintf("wire %q decodes to {%s} on its own but to {%s} right after decoding %q", w, base, again, b), []string{b, w})
					return
				}
			}
		})
		cov := ev.Coverage{"evaluations": k.cases.Load(), "distinct_nontrivial": k.nontriv.Load(), "exhaustive": k.exhaustive(),
			"input_strings": len(inputs), "wire_texts": len(wires),
			"samples": []any{map[string]string{"route": "EventID.Scan(string)", "input": "a\ndata: x"}, map[string]string{"route": "Upgrade", "header": "a\r"}},
			"rule":    fmt.Sprintf("every string of <= %d tokens over %q through every route (NewID, NewType, ID, Type, UnmarshalText incl. later buffer reuse, MarshalText with the result overwritten by the caller, UnmarshalJSON with raw and \\u escapes, Scan as string and []byte, the Last-Event-Id header given to Upgrade) plus non-string JSON documents and driver values; every wire text of <= %d tokens over %q through Message.UnmarshalText, on its own and right after each of %d other texts (LF-only, CR-only, with BOM, truncated) with the results compared. Non-trivial = the input contains CR or LF (resp. the wire text yields a set ID or type).", L, c14Tokens, WL, c14Wire, len(c14Before))}
		return &sqrun.Outcome{Level: "exploration", Coverage: cov}
	},
}
