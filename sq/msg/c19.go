package msg

import (
	"context"
	"fmt"
	"strconv"
	"strings"
	"time"

	sse "github.com/tmaxmax/go-sse"

	"verif/ev"
	"verif/sq/sqrun"
)

// value model of a message: plain copied slices
type vmsg struct {
	lines []string // "d:<x>" / "c:<x>"
	id    string
	hasID bool
}

func (v vmsg) clone() vmsg {
	return vmsg{lines: append([]string(nil), v.lines...), id: v.id, hasID: v.hasID}
}

func (v vmsg) encode() string {
	m := &sse.Message{}
	if v.hasID {
		m.ID = sse.ID(v.id)
	}
	for _, l := range v.lines {
		if l[0] == 'd' {
			m.AppendData(l[2:])
		} else {
			m.AppendComment(l[2:])
		}
	}
	return m.String()
}

var c19Ops = []string{"AppendData", "AppendComment", "SetID", "Clone", "UnmarshalText", "ID.UnmarshalText(reused buffer)", "AppendData(x CR)", "AppendData(LF x)"}

// runCloneSeq applies a sequence of operations (op*3+target) to a family of at most 3 messages and to the
// value model; after every step every message must encode like its model.
func runCloneSeq(seq []uint8) string {
	real := []*sse.Message{{}}
	model := []vmsg{{}}
	scratch := make([]byte, 8) // the caller's line buffer, reused for every ID it decodes
	for step, code := range seq {
		op, tgt := int(code)/3, int(code)%3
		if tgt >= len(real) {
			return "skip"
		}
		x := "x" + strconv.Itoa(step)
		switch op {
		case 0:
			real[tgt].AppendData(x)
			model[tgt].lines = append(model[tgt].lines, "d:"+x)
		case 1:
			real[tgt].AppendComment(x)
			model[tgt].lines = append(model[tgt].lines, "c:"+x)
		case 2:
			real[tgt].ID = sse.ID(x)
			model[tgt].id, model[tgt].hasID = x, true
		case 3:
			if len(real) >= 3 {
				return "skip"
			}
			real = append(real, real[tgt].Clone())
			model = append(model, model[tgt].clone())
		case 4:
			// decode a new event into an existing message (what a relay does): the target becomes that event,
			// nobody else may notice
			if err := real[tgt].UnmarshalText([]byte("data: " + x + "\n: " + x + "\ndata: u\n\n")); err != nil {
				return "UnmarshalText failed: " + err.Error()
			}
			model[tgt] = vmsg{lines: []string{"d:" + x, "c:" + x, "d:u"}}
		case 5:
			// the ID arrives as text in a buffer the caller reuses afterwards (a scanner's line buffer)
			n := copy(scratch, x)
			if err := real[tgt].ID.UnmarshalText(scratch[:n]); err != nil {
				return "ID.UnmarshalText failed: " + err.Error()
			}
			model[tgt].id, model[tgt].hasID = x, true
		case 6:
			// text ending in a lone CR, and (7) text starting with LF: whatever the library makes of a line break that
			// is split over two calls, a message must encode like one built on its own by the same calls
			real[tgt].AppendData(x + "\r")
			model[tgt].lines = append(model[tgt].lines, "d:"+x+"\r")
		case 7:
			real[tgt].AppendData("\n" + x)
			model[tgt].lines = append(model[tgt].lines, "d:\n"+x)
		}
		// all messages are encoded first (through MarshalText: the results are kept side by side), then compared:
		// what one message encoded to must not change when another one is encoded
		outs := make([][]byte, len(real))
		for i := range real {
			outs[i], _ = real[i].MarshalText()
		}
		for i := range real {
			want := model[i].encode()
			if got := string(outs[i]); got != want {
				return fmt.Sprintf("after %s message #%d encodes to %q (MarshalText, read after the other messages were encoded too), want %q (what a message built on its own by the same calls encodes to)", describeSeq(seq[:step+1]), i, got, want)
			}
			if got := real[i].String(); got != want {
				return fmt.Sprintf("after %s message #%d encodes to %q, want %q (what a message built on its own by the same calls encodes to)", describeSeq(seq[:step+1]), i, got, want)
			}
		}
	}
	return ""
}

func describeSeq(seq []uint8) string {
	var ss []string
	for _, code := range seq {
		ss = append(ss, fmt.Sprintf("%s(#%d)", c19Ops[int(code)/3], int(code)%3))
	}
	return "[" + strings.Join(ss, " ") + "]"
}

// publishing the same message repeatedly
func checkPut(k *collector, valid, auto bool, times int, withData int) {
	k.cases.Add(1)
	k.nontriv.Add(1)
	var r sse.Replayer
	var vr *sse.ValidReplayer
	now := time.Date(2030, 1, 1, 0, 0, 0, 0, time.UTC)
	if valid {
		v, _ := sse.NewValidReplayer(time.Hour, auto)
		v.Now = func() time.Time { return now }
		r, vr = v, v
	} else {
		f, _ := sse.NewFiniteReplayer(2, auto)
		r = f
	}
	m := &sse.Message{Type: sse.Type("kind"), Retry: 3 * time.Second}
	m.AppendComment("note")
	for i := 0; i < withData; i++ {
		m.AppendData("d" + strconv.Itoa(i))
	}
	if !auto {
		m.ID = sse.ID("manual")
	}
	before := m.String()
	var outs []*sse.Message
	var ids []string
	what := fmt.Sprintf("replayer valid=%v autoIDs=%v, the same message (%d data lines) put %d times", valid, auto, withData, times)
	for t := 0; t < times; t++ {
		out, err := r.Put(m, []string{"a"})
		if err != nil {
			k.fail("C19: putting one message repeatedly fails", fmt.Sprintf("%s: Put #%d returned %v", what, t+1, err), what)
			return
		}
		if m.String() != before || m.ID.IsSet() != !auto {
			k.fail("C19: Put modifies the message it is given", fmt.Sprintf("%s: after Put #%d the caller's message encodes to %q (before: %q)", what, t+1, m.String(), before), what)
			return
		}
		if auto && out == m {
			k.fail("C19: with automatic IDs Put returns the caller's own message", what, what)
			return
		}
		// the publication is a faithful copy: everything but the ID is what the caller published
		strip := func(s string) string {
			if strings.HasPrefix(s, "id: ") {
				return s[strings.IndexByte(s, '\n')+1:]
			}
			return s
		}
		if strip(out.String()) != strip(before) || out.Type != m.Type || out.Retry != m.Retry {
			k.fail("C19: the message returned by Put is not a faithful copy of the published one", fmt.Sprintf("%s: published %q, Put returned %q", what, before, out.String()), what)
			return
		}
		outs = append(outs, out)
		ids = append(ids, out.ID.String())
		// appending to the returned copy must not reach the caller's message
		if auto {
			out.AppendData("appended-to-returned-copy")
			if m.String() != before {
				k.fail("C19: the copy returned by Put shares state with the caller's message", fmt.Sprintf("%s: appending to the returned copy changed the caller's message to %q", what, m.String()), what)
				return
			}
		}
	}
	if auto && vr != nil {
		// everything expires and is collected (explicitly, then again by the next Put): the numbering goes on
		for round := 0; round < 2; round++ {
			now = now.Add(2 * time.Hour)
			if round == 0 {
				vr.GC()
			}
			out, err := r.Put(m, []string{"a"})
			if err != nil {
				k.fail("C19: putting one message repeatedly fails", fmt.Sprintf("%s: Put after everything expired returned %v", what, err), what)
				return
			}
			outs = append(outs, out)
			ids = append(ids, out.ID.String())
		}
	}
	if auto {
		for t, id := range ids {
			if id != strconv.Itoa(t) {
				k.fail("C19: publications of one message do not get consecutive IDs of their own", fmt.Sprintf("%s: IDs %v", what, ids), what)
				return
			}
			if outs[t].ID.String() != id {
				k.fail("C19: an earlier publication's ID changed when the message was published again", fmt.Sprintf("%s: publication #%d had ID %s, now %q", what, t+1, id, outs[t].ID.String()), what)
				return
			}
		}
	}
}

// nestWriter runs other() inside its at-th Write call, BEFORE it looks at the bytes it was given: the encodings of two
// messages interleaved at Write granularity on one goroutine. Whatever scratch memory the encoder shares between
// messages (a package-level buffer, a pool) is overwritten by the inner encoding while the outer one still points at it.
type nestWriter struct {
	at, calls int
	other     func()
	got       []byte
}

func (w *nestWriter) Write(p []byte) (int, error) {
	w.calls++
	if w.calls == w.at {
		w.other()
	}
	w.got = append(w.got, p...)
	return len(p), nil
}

// checkInterleavedEncoding: an original and its clone with every field set differently, each encoded while the
// other one's encoding is in progress, at every Write position.
func checkInterleavedEncoding(k *collector) {
	orig := &sse.Message{ID: sse.ID("orig-1"), Type: sse.Type("first"), Retry: 1500 * time.Millisecond}
	orig.AppendData("o1", "o2")
	orig.AppendComment("oc")
	cl := orig.Clone()
	cl.ID, cl.Type, cl.Retry = sse.ID("clone-22"), sse.Type("second"), 987654*time.Millisecond
	cl.AppendData("c3")
	wantO, wantC := orig.String(), cl.String()
	probe := &nestWriter{}
	_, _ = orig.WriteTo(probe)
	for _, pair := range [][2]*sse.Message{{orig, cl}, {cl, orig}} {
		outer, inner := pair[0], pair[1]
		want := wantO
		if outer == cl {
			want = wantC
		}
		for at := 1; at <= probe.calls+4; at++ {
			k.cases.Add(1)
			k.nontriv.Add(1)
			var innerOut strings.Builder
			w := &nestWriter{at: at, other: func() { _, _ = inner.WriteTo(&innerOut) }}
			_, _ = outer.WriteTo(w)
			if string(w.got) != want {
				what := fmt.Sprintf("original and clone with different ID/type/retry/data; the other one is encoded inside Write call #%d of this one's WriteTo", at)
				k.fail("C19: encoding one message changes what another one encodes to", fmt.Sprintf("%s: got %q, want %q", what, w.got, want), what)
				return
			}
		}
	}
}

type nullWriter struct{}

func (nullWriter) Send(*sse.Message) error { return nil }
func (nullWriter) Flush() error            { return nil }

// checkReplayKeepsCallersMessages: with publisher-set IDs the replayers store the caller's own messages; replaying
// them (any number of times) must leave them exactly as they were published.
func checkReplayKeepsCallersMessages(k *collector) {
	for _, valid := range []bool{false, true} {
		var r sse.Replayer
		if valid {
			v, _ := sse.NewValidReplayer(time.Hour, false)
			r = v
		} else {
			f, _ := sse.NewFiniteReplayer(4, false)
			r = f
		}
		var msgs []*sse.Message
		var before []string
		for i := 0; i < 3; i++ {
			m := &sse.Message{ID: sse.ID(fmt.Sprint("id", i)), Type: sse.Type("kind"), Retry: time.Duration(i+2) * time.Second}
			m.AppendData("d", fmt.Sprint(i))
			m.AppendComment("c")
			msgs = append(msgs, m)
			before = append(before, m.String())
			if _, err := r.Put(m, []string{"a"}); err != nil {
				k.fail("C19: putting a valid message fails", err.Error(), "replay keeps messages")
				return
			}
		}
		for round := 0; round < 2; round++ {
			k.cases.Add(1)
			k.nontriv.Add(1)
			_ = r.Replay(sse.Subscription{Client: nullWriter{}, Topics: []string{"a"}, LastEventID: sse.ID("id0")})
			for i, m := range msgs {
				if m.String() != before[i] {
					what := fmt.Sprintf("replayer valid=%v with publisher-set IDs: three messages put, then replayed from the first", valid)
					k.fail("C19: replaying changes a message the caller published", fmt.Sprintf("%s: message #%d now encodes to %q (published as %q)", what, i, m.String(), before[i]), what)
					return
				}
			}
		}
	}
}

// scripted replayers for checkPublish
type errReplayer struct{}

func (errReplayer) Put(*sse.Message, []string) (*sse.Message, error) {
	return nil, fmt.Errorf("scripted Put error")
}
func (errReplayer) Replay(sse.Subscription) error { return nil }

type panicReplayer struct{}

func (panicReplayer) Put(*sse.Message, []string) (*sse.Message, error) { panic("scripted Put panic") }
func (panicReplayer) Replay(sse.Subscription) error                   { return nil }

// checkPublish publishes one message value several times through a real Joe (no subscribers) with every kind
// of replayer, accepted and rejected: the caller's message must stay what it was.
func checkPublish(k *collector, rep string, auto bool, withID bool, times int) {
	k.cases.Add(1)
	k.nontriv.Add(1)
	var r sse.Replayer
	switch rep {
	case "finite":
		f, _ := sse.NewFiniteReplayer(2, auto)
		r = f
	case "valid":
		v, _ := sse.NewValidReplayer(time.Hour, auto)
		r = v
	case "error":
		r = errReplayer{}
	case "panic":
		r = panicReplayer{}
	}
	j := &sse.Joe{Replayer: r}
	defer j.Shutdown(context.Background())
	m := &sse.Message{Type: sse.Type("kind"), Retry: 3 * time.Second}
	m.AppendComment("note")
	m.AppendData("d0", "d1")
	if withID {
		m.ID = sse.ID("manual")
	}
	before := m.String()
	what := fmt.Sprintf("Joe with replayer %s (autoIDs=%v), one message (ID set: %v) published %d times", rep, auto, withID, times)
	for t := 0; t < times; t++ {
		err := j.Publish(m, []string{"a"})
		if m.String() != before || m.ID.IsSet() != withID || m.Type.String() != "kind" || m.Retry != 3*time.Second {
			k.fail("C19: Publish modifies the message it is given", fmt.Sprintf("%s: after Publish #%d (returned %v) the caller's message encodes to %q (before: %q)", what, t+1, err, m.String(), before), what)
			return
		}
	}
}

var C19 = &sqrun.Check{ID: "C19", QuickBudget: 60, ThoroughBudget: 600,
	Run: func(c *sqrun.Ctx) *sqrun.Outcome {
		k := &collector{c: c}
		depth := 6
		if c.Thorough {
			depth = 7
		}
		nops := len(c19Ops) * 3
		var seqs int64
		for d := 1; d <= depth && k.exhaustive(); d++ {
			total := 1
			for i := 0; i < d; i++ {
				total *= nops
			}
			k.parallel(total, func(i int) {
				seq := make([]uint8, d)
				for j := 0; j < d; j++ {
					seq[j] = uint8(i % nops)
					i /= nops
				}
				v := runCloneSeq(seq)
				if v == "skip" {
					return
				}
				k.cases.Add(1)
				k.nontriv.Add(1)
				if v != "" {
					k.fail("C19: a clone shares state with its original", v, describeSeq(seq))
				}
			})
		}
		seqs = k.cases.Load()
		for _, valid := range []bool{false, true} {
			for _, auto := range []bool{false, true} {
				for times := 1; times <= 6; times++ {
					for wd := 0; wd <= 5; wd++ {
						checkPut(k, valid, auto, times, wd)
					}
				}
			}
		}
		checkInterleavedEncoding(k)
		checkReplayKeepsCallersMessages(k)
		for _, rep := range []string{"none", "finite", "valid", "error", "panic"} {
			for _, auto := range []bool{false, true} {
				for _, withID := range []bool{false, true} {
					for times := 1; times <= 3; times++ {
						checkPublish(k, rep, auto, withID, times)
					}
				}
			}
		}
		cov := ev.Coverage{"evaluations": k.cases.Load(), "distinct_nontrivial": k.nontriv.Load(), "exhaustive": k.exhaustive(),
			"clone_sequences": seqs, "depth": depth,
			"samples": []any{describeSeq([]uint8{0, 0, 0, 9, 0, 1}), "replayer valid=false autoIDs=true, the same message (3 data lines) put 4 times"},
			"rule":    fmt.Sprintf("every sequence of <= %d operations from {AppendData, AppendComment, set ID, Clone, UnmarshalText of a new event, ID.UnmarshalText from a buffer the caller reuses} x target message (family of at most 3 messages, clones of clones included), executed on real Messages and on a value model (copied slices); after every step every message must encode exactly like its model. Plus: one message put 1..6 times (0..5 data lines) through FiniteReplayer(2) and ValidReplayer in both ID modes: the caller's message stays byte-identical and unset, returned copies are independent, IDs consecutive, earlier publications keep their IDs (wrap-around of the finite buffer included). Plus: an original and its clone (all fields different) each encoded inside every Write call of the other one's WriteTo (shared scratch memory in the encoder). Plus: one message published 1..3 times through a real Joe with no replayer, FiniteReplayer, ValidReplayer (both ID modes, with and without an ID of its own, so accepted and rejected), a replayer whose Put fails and one whose Put panics: the caller's message stays byte-identical. What subscribers receive is covered by C04's oracle (IDs live = IDs returned by Put).", depth)}
		return &sqrun.Outcome{Level: "model_checking", Coverage: ev.Coverage(mergeMC(cov, seqs)), Assumptions: []string{"Message has no hidden state beyond what its encoding shows"}}
	},
}

func mergeMC(cov ev.Coverage, seqs int64) ev.Coverage {
	cov["states"] = seqs
	cov["transitions"] = seqs
	cov["traces_validated_against_impl"] = seqs
	return cov
}
