// Package msg holds the sequential checks of Message / EventID / EventType: C02 (encoding decodes to exactly
// what was appended), C14 (a set ID/type is a single line), C15 (text round trip, byte accounting under write
// faults) and C19 (clone independence, Put does not mutate).
package msg

import (
	"encoding/json"
	"fmt"
	"os"
	"runtime"
	"strings"
	"sync"
	"sync/atomic"
	"time"

	"verif/ev"
	"verif/sq/sqrun"
)

// Lines is the independent definition of the lines of a string: split at CR | LF | CRLF; a terminator at
// the very end does not open a new line.
func Lines(s string) []string {
	var out []string
	for len(s) > 0 {
		i := strings.IndexAny(s, "\r\n")
		if i < 0 {
			out = append(out, s)
			break
		}
		out = append(out, s[:i])
		if s[i] == '\r' && i+1 < len(s) && s[i+1] == '\n' {
			i++
		}
		s = s[i+1:]
	}
	return out
}

func multiline(s string) bool { return strings.ContainsAny(s, "\r\n") }

// Strings enumerates all strings of <= l tokens over toks, shortlex.
func Strings(toks []string, l int) []string {
	out := []string{""}
	prev := []string{""}
	for k := 1; k <= l; k++ {
		var cur []string
		for _, p := range prev {
			for _, t := range toks {
				cur = append(cur, p+t)
			}
		}
		out = append(out, cur...)
		prev = cur
	}
	return out
}

type collector struct {
	c       *sqrun.Ctx
	mu      sync.Mutex
	cases   atomic.Int64
	nontriv atomic.Int64
	stop    atomic.Bool
	timeout atomic.Bool
}

func (k *collector) fail(sig, msg string, replay any) {
	k.mu.Lock()
	defer k.mu.Unlock()
	k.c.Rep.Add(sig, msg, func() string {
		return ev.WriteReplay(k.c.Prop, sig, map[string]any{"property": k.c.Prop, "case": replay, "violation": msg, "signature": sig})
	})
	if len(k.c.Rep.Violations) >= 8 {
		k.stop.Store(true)
	}
}

// parallel runs f(i) for i in [0,n) on all CPUs.
func (k *collector) parallel(n int, f func(i int)) {
	var next atomic.Int64
	var wg sync.WaitGroup
	for w := 0; w < runtime.NumCPU(); w++ {
		wg.Add(1)
		go func() {
			defer wg.Done()
			for {
				i := int(next.Add(1)) - 1
				if i >= n || k.stop.Load() {
					return
				}
				if i%1024 == 0 && time.Now().After(k.c.Deadline) {
					k.timeout.Store(true)
					return
				}
				func() {
					defer func() {
						if r := recover(); r != nil {
							k.fail(k.c.Prop+": the code under test panicked", fmt.Sprintf("case #%d: panic: %v", i, r), i)
						}
					}()
					f(i)
				}()
			}
		}()
	}
	wg.Wait()
}

func (k *collector) exhaustive() bool { return !k.stop.Load() && !k.timeout.Load() }

func q(s string) string { return fmt.Sprintf("%q", s) }

// replayer builds the --replay handler of a check from a function that re-judges one stored case.
func replayer(prop string, rejudge func(k *collector, raw []byte)) func(c *sqrun.Ctx, path string) int {
	return func(c *sqrun.Ctx, path string) int {
		b, err := os.ReadFile(path)
		if err != nil {
			fmt.Fprintln(os.Stderr, err)
			return 2
		}
		var rf struct {
			Case json.RawMessage `json:"case"`
		}
		if err := json.Unmarshal(b, &rf); err != nil {
			fmt.Fprintln(os.Stderr, err)
			return 2
		}
		k := &collector{c: c}
		c.Rep.Known = map[string]string{}
		rejudge(k, rf.Case)
		if len(c.Rep.Violations) > 0 {
			for _, v := range c.Rep.Violations {
				fmt.Printf("VIOLATION property=%s replay=%s\n  %s\n", prop, path, v.Msg)
			}
			return 1
		}
		fmt.Println("no violation for this case")
		return 0
	}
}
