package msg

import (
	"encoding/json"
	"errors"
	"fmt"
	"strings"
	"time"

	sse "github.com/tmaxmax/go-sse"

	"verif/ev"
	"verif/sq/ref"
	"verif/sq/sqrun"
)

var errWrite = errors.New("scripted write failure")

// faultWriter accepts accept bytes of its failAt-th Write call and returns errWrite (failAt 0: never fails).
type faultWriter struct {
	failAt, accept int
	calls          int
	got            []byte
	sizes          []int
	afterFail      int
	failed         bool
}

func (w *faultWriter) Write(p []byte) (int, error) {
	if w.failed {
		w.afterFail++
		return 0, errWrite
	}
	w.calls++
	w.sizes = append(w.sizes, len(p))
	if w.calls == w.failAt {
		n := w.accept
		if n > len(p) {
			n = len(p)
		}
		w.got = append(w.got, p[:n]...)
		w.failed = true
		return n, errWrite
	}
	w.got = append(w.got, p...)
	return len(p), nil
}

func checkRoundTrip(k *collector, spec MsgSpec) {
	k.cases.Add(1)
	m := spec.Build()
	b, err := m.MarshalText()
	s := m.String()
	var sb strings.Builder
	n, werr := m.WriteTo(&sb)
	if err != nil || werr != nil || string(b) != s || sb.String() != s || n != int64(len(s)) {
		k.fail("C15: WriteTo, MarshalText and String disagree", fmt.Sprintf("%+v: MarshalText %q (err %v), String %q, WriteTo %q (n=%d err %v)", spec, b, err, s, sb.String(), n, werr), spec)
		return
	}
	hasField := spec.HasID || spec.HasType || time.Duration(spec.Retry).Milliseconds() > 0 || len(spec.dataLines())+len(spec.commentLines()) > 0
	if !hasField {
		if len(s) != 0 {
			k.fail("C15: a message with nothing to write produced bytes", fmt.Sprintf("%+v encodes to %q", spec, s), spec)
		}
		return
	}
	k.nontriv.Add(1)
	var back sse.Message
	if err := back.UnmarshalText(b); err != nil {
		k.fail("C15: UnmarshalText rejects the output of MarshalText", fmt.Sprintf("%+v encodes to %q; UnmarshalText: %v", spec, s, err), spec)
		return
	}
	wantMs := time.Duration(spec.Retry).Milliseconds()
	if wantMs < 0 {
		wantMs = 0
	}
	if back.ID != m.ID || back.Type != m.Type || back.Retry.Milliseconds() != wantMs || back.String() != s {
		k.fail("C15: text round trip changes the message", fmt.Sprintf("%+v encodes to %q; after UnmarshalText: ID %q/%v type %q/%v retry %v, re-encoded %q", spec, s, back.ID.String(), back.ID.IsSet(), back.Type.String(), back.Type.IsSet(), back.Retry, back.String()), spec)
		return
	}
	// the receiver decoded into again: a clone taken in between keeps the first text, the receiver reads as the second
	kept := back.Clone()
	const second = ": zz\ndata: q\n: yy\ndata: r\ndata: s\n\n"
	if err := back.UnmarshalText([]byte(second)); err != nil || back.String() != second || back.ID.IsSet() || back.Type.IsSet() || back.Retry != 0 {
		k.fail("C15: decoding into a receiver that was used before", fmt.Sprintf("%q decoded into a message that held %q: err %v, re-encoded %q, ID set %v, type set %v, retry %v", second, s, err, back.String(), back.ID.IsSet(), back.Type.IsSet(), back.Retry), spec)
		return
	}
	if kept.String() != s {
		k.fail("C15: decoding into a receiver changes a clone taken from it before", fmt.Sprintf("%+v decoded from %q and cloned; after the receiver decoded %q the clone encodes to %q", spec, s, second, kept.String()), spec)
		return
	}
	// Re-encoding equal bytes proves nothing if the bytes themselves merged or split lines: the text must carry
	// exactly the appended data and comment lines (counted by an independent line splitter and the reference).
	comments := 0
	for _, l := range Lines(s) {
		if strings.HasPrefix(l, ":") {
			comments++
		}
	}
	dl := spec.dataLines()
	got := ref.Interpret(s, ref.Mode{Strict: true})
	switch {
	case comments != len(spec.commentLines()):
		k.fail("C15: the text form does not carry the appended comment lines", fmt.Sprintf("%+v encodes to %q: %d comment lines, %d were appended", spec, s, comments, len(spec.commentLines())), spec)
	case len(dl) > 0 && (len(got.Events) != 1 || got.Events[0].Data != strings.Join(dl, "\n")):
		k.fail("C15: the text form does not carry the appended data lines", fmt.Sprintf("%+v encodes to %q, which reads as %+v; appended data lines %q", spec, s, got.Events, dl), spec)
	case len(dl) == 0 && len(got.Events) != 0:
		k.fail("C15: the text form carries data that was not appended", fmt.Sprintf("%+v encodes to %q, which reads as %+v", spec, s, got.Events), spec)
	}
}

func checkFaults(k *collector, spec MsgSpec) {
	m := spec.Build()
	full := m.String()
	probe := &faultWriter{}
	_, _ = m.WriteTo(probe)
	for call := 1; call <= probe.calls; call++ {
		for acc := 0; acc <= probe.sizes[call-1]; acc++ {
			if acc == probe.sizes[call-1] && acc > 3 {
				// accepting everything and still failing is covered for short writes; keep one such case per call
			}
			k.cases.Add(1)
			k.nontriv.Add(1)
			w := &faultWriter{failAt: call, accept: acc}
			n, err := m.WriteTo(w)
			what := fmt.Sprintf("%+v (encoding %q): Write call #%d accepts %d of %d bytes then fails", spec, full, call, acc, probe.sizes[call-1])
			switch {
			case err != errWrite:
				k.fail("C15: WriteTo does not return the writer's error", fmt.Sprintf("%s: WriteTo returned error %v", what, err), spec)
			case n != int64(len(w.got)):
				k.fail("C15: WriteTo reports a byte count different from what the writer accepted", fmt.Sprintf("%s: WriteTo returned n=%d, the writer accepted %d", what, n, len(w.got)), spec)
			case !strings.HasPrefix(full, string(w.got)):
				k.fail("C15: bytes written before the fault are not a prefix of the encoding", fmt.Sprintf("%s: written %q", what, w.got), spec)
			case w.afterFail > 0:
				k.fail("C15: WriteTo keeps writing after a failed Write", fmt.Sprintf("%s: %d more Write calls", what, w.afterFail), spec)
			default:
				continue
			}
			return
		}
	}
}

func init() {
	C15.Replay = replayer("C15", func(k *collector, raw []byte) {
		var sp MsgSpec
		if json.Unmarshal(raw, &sp) == nil {
			checkRoundTrip(k, sp)
			checkFaults(k, sp)
		}
	})
}

var C15 = &sqrun.Check{ID: "C15", QuickBudget: 60, ThoroughBudget: 600,
	Run: func(c *sqrun.Ctx) *sqrun.Outcome {
		k := &collector{c: c}
		L := 3
		if c.Thorough {
			L = 5
		}
		toks := []string{"\n", "\r", "a", ":", " ", "data: x", "id: z", "\xEF\xBB\xBF", "retry: 5", "\xff"}
		payloads := Strings(toks, L)
		var fields []string
		for _, p := range Strings(toks, 2) {
			if !multiline(p) {
				fields = append(fields, p)
			}
		}
		rts := []int64{0, int64(999 * time.Microsecond), int64(time.Millisecond), int64(1500 * time.Microsecond), int64(time.Second), 1<<63 - 1, -1, -int64(time.Millisecond), -int64(time.Second), -1 << 63}
		// (1) every payload as data / comment / both; (2) ID x Type x Retry x shapes
		k.parallel(len(payloads), func(i int) {
			p := payloads[i]
			for _, sp := range []MsgSpec{
				{Calls: []Call{{"data", []string{p}}}}, {Calls: []Call{{"comment", []string{p}}}},
				{Calls: []Call{{"comment", []string{p}}, {"data", []string{p, "x"}}, {"comment", []string{"c"}}}, ID: "i", HasID: true, Retry: int64(time.Second)},
			} {
				checkRoundTrip(k, sp)
				checkFaults(k, sp)
			}
		})
		nf := len(fields)
		k.parallel(nf*nf, func(i int) {
			id, ty := fields[i%nf], fields[i/nf]
			for _, r := range rts {
				for _, cs := range [][]Call{nil, {{"data", []string{"x\ry"}}}, {{"comment", []string{"c"}}, {"data", []string{""}}}} {
					for mask := 0; mask < 4; mask++ {
						sp := MsgSpec{Calls: cs, ID: id, HasID: mask&1 == 1, Type: ty, HasType: mask&2 == 2, Retry: r}
						checkRoundTrip(k, sp)
						if r == rts[4] || i%7 == 0 {
							checkFaults(k, sp)
						}
					}
				}
			}
		})
		// (3) size family: every line / ID / type length up to maxLen (buffer-size boundaries inside the encoder)
		maxLen := 300
		if c.Thorough {
			maxLen = 1100
		}
		k.parallel(maxLen+1, func(n int) {
			x := strings.Repeat("x", n)
			for _, sp := range []MsgSpec{
				{Calls: []Call{{"data", []string{x}}, {"data", []string{"second"}}}},
				{Calls: []Call{{"comment", []string{x}}, {"data", []string{"second"}}}},
				{Calls: []Call{{"data", []string{"first", x}}, {"comment", []string{x}}}, ID: "i", HasID: true},
				{Calls: []Call{{"data", []string{"d"}}}, ID: x, HasID: true, Type: "t", HasType: true},
				{Calls: []Call{{"data", []string{"d"}}}, ID: "i", HasID: true, Type: x, HasType: true},
			} {
				checkRoundTrip(k, sp)
				if n <= 160 || n%16 < 2 {
					checkFaults(k, sp)
				}
			}
		})
		// (4) large messages: around the sizes at which buffered readers and scanners change behaviour
		big := []int{4095, 4096, 4097, 65534, 65535, 65536, 65537, 70000, 200000}
		k.parallel(len(big), func(i int) {
			x := strings.Repeat("x", big[i])
			for _, sp := range []MsgSpec{
				{Calls: []Call{{"data", []string{x}}, {"data", []string{"second"}}}, ID: "i", HasID: true},
				{Calls: []Call{{"data", []string{"d"}}, {"comment", []string{x}}}},
				{Calls: []Call{{"data", []string{"d", "e"}}}, ID: x, HasID: true},
			} {
				checkRoundTrip(k, sp)
			}
		})
		cov := ev.Coverage{"evaluations": k.cases.Load(), "distinct_nontrivial": k.nontriv.Load(), "exhaustive": k.exhaustive(),
			"payload_strings": len(payloads), "field_strings": nf, "size_family_max_length": maxLen, "large_sizes": big,
			"samples": []any{MsgSpec{Calls: []Call{{"data", []string{" a\r"}}}, ID: "", HasID: true}, map[string]any{"message": MsgSpec{ID: "i", HasID: true}, "fault": "Write #2 accepts 1 byte"}},
			"rule":    fmt.Sprintf("every string of <= %d tokens over %q as data and comment payload, and every combination of ID / type (all %d single-line strings of <= 2 tokens, set or unset, incl. the empty string) x 10 Retry values (incl. negative ones down to the int64 minimum) x 3 chunk shapes: (1) round trip UnmarshalText(MarshalText(m)) compared field by field and by re-encoding; WriteTo/MarshalText/String byte-identical; the receiver decoded into again with a clone taken in between (the clone keeps the first text); nothing to write => zero bytes; (2) fault enumeration: for every Write call k of the encoding and every j in [0, len(k-th write)] a writer that accepts j bytes of the k-th write and fails; (3) size family: data line, comment line, ID and type of every length 0..%d (faults for every length up to 160 and two in sixteen above), and the round trip of messages of 4 KiB, 64 KiB (each -1, +0, +1), 70 000 and 200 000 bytes. Non-trivial = messages with at least one field / every fault case.", L, toks, nf, maxLen)}
		return &sqrun.Outcome{Level: "fault_enumeration", Coverage: cov, Assumptions: []string{"IDs containing NUL are outside the round-trip clause (the property says so); negative Retry values round-trip to zero (nothing is written for them)"}}
	},
}
