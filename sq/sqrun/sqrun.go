// Package sqrun is the command-line and evidence glue of the sequential (seqx) checks.
package sqrun

import (
	"flag"
	"fmt"
	"os"
	"runtime"
	"runtime/debug"
	"strings"
	"time"

	"verif/ev"
)

type Ctx struct {
	Prop     string
	Tier     string
	Thorough bool
	Deadline time.Time
	Budget   int
	Replay   string
	Rep      *ev.Report
	Args     []string
}

type Outcome struct {
	Level       string
	Coverage    ev.Coverage
	Assumptions []string
	Infra       []string
}

type Check struct {
	ID                          string
	QuickBudget, ThoroughBudget int
	Run                         func(c *Ctx) *Outcome
	// Replay re-executes a replay file without the explorer; returns exit code.
	Replay func(c *Ctx, path string) int
}

func Main(chk *Check, args []string) int {
	fs := flag.NewFlagSet(chk.ID, flag.ExitOnError)
	tier := fs.String("tier", envOr("VERIF_TIER", "quick"), "quick or thorough")
	replay := fs.String("replay", "", "replay file")
	budget := fs.Int("budget", 0, "wall-clock budget in seconds")
	_ = fs.Parse(args)
	if *tier != "thorough" {
		*tier = "quick"
	}
	if *budget == 0 {
		*budget = chk.QuickBudget
		if *tier == "thorough" {
			*budget = chk.ThoroughBudget
		}
		if *budget == 0 {
			*budget = 60
		}
	}
	c := &Ctx{Prop: chk.ID, Tier: *tier, Thorough: *tier == "thorough", Budget: *budget,
		Deadline: time.Now().Add(time.Duration(*budget) * time.Second), Rep: ev.NewReport(chk.ID, *tier), Args: fs.Args()}
	if *replay != "" {
		if chk.Replay == nil {
			fmt.Fprintln(os.Stderr, "no replay support for", chk.ID)
			return 2
		}
		return chk.Replay(c, *replay)
	}
	debug.SetGCPercent(800) // the checks allocate small short-lived objects in 16 workers: collect less often
	go watchdog(chk, c, *budget)
	o := runRecovering(chk, c)
	e := &ev.Evidence{PropertyID: chk.ID, Tier: *tier, Seed: ev.Seed(), Level: o.Level, Coverage: o.Coverage,
		Assumptions: o.Assumptions, WallS: time.Since(c.Rep.Start).Seconds(), Violations: len(c.Rep.Violations), KnownFindingsHit: c.Rep.KnownHitList()}
	if err := e.Write(); err != nil {
		o.Infra = append(o.Infra, "evidence: "+err.Error())
	}
	var keys []string
	for _, k := range []string{"evaluations", "distinct_nontrivial", "states", "transitions", "exhaustive"} {
		if v, ok := o.Coverage[k]; ok {
			keys = append(keys, fmt.Sprintf("%s=%v", k, v))
		}
	}
	fmt.Printf("%s %s: %s\n", chk.ID, *tier, strings.Join(keys, " "))
	if len(o.Infra) > 0 {
		for _, s := range o.Infra {
			fmt.Println("INFRASTRUCTURE-ERROR:", s)
		}
		c.Rep.Finish()
		return 2
	}
	return c.Rep.Finish()
}

// watchdog: the enumeration loops stop by themselves when the budget is over; a run that is still going long
// after that is sitting in a call into the code under test that does not return. That is reported as a violation
// (with a dump of all goroutines, which names the call), not left to whoever started the check to kill.
func watchdog(chk *Check, c *Ctx, budget int) {
	grace := time.Duration(3*budget+180) * time.Second
	time.Sleep(time.Until(c.Deadline) + grace)
	buf := make([]byte, 1<<20)
	buf = buf[:runtime.Stack(buf, true)]
	msg := fmt.Sprintf("the check was still running %v after its budget of %d s had expired: a call into the code under test does not return (infinite loop or deadlock). Goroutines:\n%s", grace, budget, buf)
	path := ev.WriteReplay(chk.ID, "no-termination", map[string]any{"property": chk.ID, "violation": msg, "how_to_replay": "./check " + chk.ID})
	fmt.Printf("VIOLATION property=%s replay=%s\n  signature: %s: a call into the code under test does not return\n", chk.ID, path, chk.ID)
	os.Exit(1)
}

// runRecovering runs the check; a panic that escapes on the main goroutine (the code under test panicking in a
// part of the check that has no recovery of its own) becomes a violation with a replay file, not a crash.
func runRecovering(chk *Check, c *Ctx) (o *Outcome) {
	defer func() {
		if r := recover(); r != nil {
			stack := string(debug.Stack())
			if len(stack) > 6000 {
				stack = stack[:6000]
			}
			msg := fmt.Sprintf("the code under test panicked: %v\n%s", r, stack)
			c.Rep.Add(chk.ID+": the code under test panicked", msg, func() string {
				return ev.WriteReplay(chk.ID, "panic", map[string]any{"property": chk.ID, "violation": msg, "how_to_replay": "./check " + chk.ID})
			})
			o = &Outcome{Level: "exploration", Coverage: ev.Coverage{"evaluations": 0, "distinct_nontrivial": 0, "exhaustive": false,
				"rule": "the run was cut short by a panic of the code under test (reported as a violation)"}}
		}
	}()
	return chk.Run(c)
}

func envOr(k, d string) string {
	if v := os.Getenv(k); v != "" {
		return v
	}
	return d
}
