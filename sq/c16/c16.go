package c16

import (
	"context"
	"encoding/json"
	"errors"
	"fmt"
	"net/http"
	"net/http/httptest"
	"os"
	"strings"
	"time"

	sse "github.com/tmaxmax/go-sse"

	"verif/ev"
	"verif/sq/sqrun"
)

var opNames = []string{"Send(data message)", "Send(id-only message)", "Send(empty message)", "Flush"}

func opMsg(op int) *sse.Message {
	m := &sse.Message{}
	switch op {
	case 0:
		m.AppendData("hello\nworld")
		m.Type = sse.Type("t")
	case 1:
		m.ID = sse.ID("7")
	}
	return m
}

type SessCase struct {
	Shape  int   `json:"shape"`
	Ops    []int `json:"ops"`
	FailAt int   `json:"fail_at_call"`
	Accept int   `json:"failing_write_accepts"`
	// PresetCT: the header map already holds another Content-Type when the session starts (a middleware's default).
	PresetCT bool `json:"preset_content_type"`
}

func (c SessCase) String() string {
	var ops []string
	for _, o := range c.Ops {
		ops = append(ops, opNames[o])
	}
	f := "no fault"
	if c.FailAt > 0 {
		f = fmt.Sprintf("underlying call #%d fails (a Write accepts %d bytes)", c.FailAt, c.Accept)
	}
	return fmt.Sprintf("writer %s, [%s], %s", Shapes[c.Shape].Name, strings.Join(ops, ", "), f)
}

// judgeSession runs one case; returns (signature NUL message | "", number of underlying calls, sizes of writes).
func judgeSession(c SessCase) (string, int, []string) {
	sh := Shapes[c.Shape]
	r := newRec()
	r.failAt, r.accept, r.stripCT = c.FailAt, c.Accept, !c.PresetCT
	if c.PresetCT {
		r.hdr.Set("Content-Type", "application/json")
	}
	req := httptest.NewRequest(http.MethodGet, "/", http.NoBody)
	sess, err := sse.Upgrade(sh.Make(r), req)
	v := func(sig, format string, args ...any) (string, int, []string) {
		return "C16: " + sig + "\x00" + c.String() + ": " + fmt.Sprintf(format, args...) + " (underlying calls: " + strings.Join(r.log, " ") + ")", r.calls, r.log
	}
	if !sh.CanFlush {
		if !errors.Is(err, sse.ErrUpgradeUnsupported) || sess != nil {
			return v("Upgrade accepts a writer that cannot flush", "Upgrade returned %v", err)
		}
		return "", 0, nil
	}
	if err != nil {
		return v("Upgrade rejects a writer that can flush", "Upgrade returned %v", err)
	}
	want := ""
	faulted := false
	bodyAtFault := ""
	wantAfter := "" // what the operations after a one-off fault must add to the body
	for _, op := range c.Ops {
		wasFailed := r.failed
		var oerr error
		flushesBefore := r.flushes
		if op == 3 {
			oerr = sess.Flush()
		} else {
			enc := opMsg(op).String()
			oerr = sess.Send(opMsg(op))
			if oerr == nil {
				want += enc
				if faulted {
					wantAfter += enc
				}
			}
		}
		if r.failed && !wasFailed {
			// the fault happened during this operation
			lost := strings.Contains(strings.Join(r.log, " "), "F!lost")
			if lost && sh.FlushReports {
				return v("a flush error the writer could report was swallowed", "the writer offers FlushError but the void Flush was used and its failure lost; %s returned %v", opNames[op], oerr)
			}
			if !lost && oerr != errFault {
				return v("the first write or flush error is not returned to the caller", "%s returned %v, want the writer's error", opNames[op], oerr)
			}
			if r.afterFail > 0 {
				return v("the writer is used again within the operation whose write or flush failed", "%d more calls", r.afterFail)
			}
			// the fault was a one-off: the caller may try again, and the remaining operations must still keep
			// the header-before-body order
			faulted = true
			bodyAtFault = string(r.body)
			continue
		}
		if oerr != nil {
			return v("an operation fails although the writer did not", "%s returned %v", opNames[op], oerr)
		}
		if faulted {
			continue
		}
		if op == 3 && r.unflushed {
			return v("Flush returned without flushing what was sent", "%d underlying flushes before, %d after, body bytes still unflushed", flushesBefore, r.flushes)
		}
		if op == 3 && r.flushes == 0 {
			return v("Flush returned without any underlying flush", "no flush reached the writer")
		}
	}
	if r.ctReset {
		return v("the Content-Type header was set again after it had been flushed", "the recorder removed it after the first successful flush and found it set again")
	}
	if len(r.body) > 0 {
		if r.ctAtFirstWrite != "text/event-stream" {
			return v("body bytes before the Content-Type header was set", "Content-Type at the first body byte: %q", r.ctAtFirstWrite)
		}
		if !r.firstWriteFlushed {
			return v("body bytes before the header was flushed", "no flush before the first body byte")
		}
	}
	if r.flushes > 0 && (len(r.ctOnWire) != 1 || r.ctOnWire[0] != "text/event-stream") {
		return v("the flushed response does not carry exactly one Content-Type: text/event-stream", "Content-Type values at the first flush: %q", r.ctOnWire)
	}
	if !r.failed && !faulted && string(r.body) != want {
		return v("the body is not the concatenation of the sent messages", "body %q, want %q", r.body, want)
	}
	if faulted && !strings.HasPrefix(wantFull(c.Ops), bodyAtFault) {
		return v("the body written before the fault is not a prefix of the sent messages", "body %q", bodyAtFault)
	}
	if faulted && string(r.body) != bodyAtFault+wantAfter {
		return v("after a failed operation the later messages do not arrive as exactly their own encodings", "body %q; at the fault it was %q, the messages sent successfully afterwards encode to %q (a message whose Send failed was reported as not sent: nothing of it may follow later)", r.body, bodyAtFault, wantAfter)
	}
	return "", r.calls, r.log
}

func wantFull(ops []int) string {
	s := ""
	for _, op := range ops {
		if op != 3 {
			s += opMsg(op).String()
		}
	}
	return s
}

// ---------------------------------------------------------------------------
// Server

type provRec struct {
	mode   int // 0 return nil; 1 error before sending; 2 send one message then error; 3 send then nil
	called int
	sub    sse.Subscription
	ctxOK  bool
}

var errProv = errors.New("scripted provider refusal")

func (p *provRec) Subscribe(ctx context.Context, sub sse.Subscription) error {
	p.called++
	p.sub = sub
	p.ctxOK = ctx != nil
	switch p.mode {
	case 1:
		return errProv
	case 2, 3:
		m := &sse.Message{}
		m.AppendData("x")
		if err := sub.Client.Send(m); err != nil {
			return err
		}
		if err := sub.Client.Flush(); err != nil {
			return err
		}
		if p.mode == 2 {
			return errProv
		}
	}
	return nil
}
func (p *provRec) Publish(*sse.Message, []string) error { return nil }
func (p *provRec) Shutdown(context.Context) error       { return nil }

type ServCase struct {
	// FailAt: the k-th underlying Write/flush call fails (0: none).
	FailAt    int      `json:"fail_at_call"`
	Shape     int      `json:"shape"`
	Header    int      `json:"header"`     // index into headers
	OnSession int      `json:"on_session"` // index into onSessions
	Provider  int      `json:"provider"`
	HeaderVal []string `json:"header_values,omitempty"`
	// Before, if set, is a request served immediately before this one (same goroutine, another writer): nothing
	// of it may carry over into this one.
	Before *ServCase `json:"served_before,omitempty"`
	// ReqCtx: 0 a live request context, 1 one that is already cancelled, 2 one whose deadline has passed when
	// ServeHTTP is called (the client went away early): what ServeHTTP owes the writer and the provider is the same.
	ReqCtx int `json:"request_context,omitempty"`
}

var headers = [][]string{nil, {""}, {"a"}, {"a\nb"}, {"x", "y"}, {"a\r"}, {" "}}
var onSessionNames = []string{"nil", "(nil, true)", "([t], true)", "([], true)", "(nil, false)", "([t], false)", "writes 401, (nil, false)", "([t, u], true)"}

func judgeServer(c ServCase) string {
	if c.Before != nil {
		_ = judgeServer(*c.Before)
	}
	sh := Shapes[c.Shape]
	r := newRec()
	r.failAt = c.FailAt
	prov := &provRec{mode: c.Provider}
	srv := &sse.Server{Provider: prov}
	wrote401 := false
	switch c.OnSession {
	case 1:
		srv.OnSession = func(http.ResponseWriter, *http.Request) ([]string, bool) { return nil, true }
	case 2:
		srv.OnSession = func(http.ResponseWriter, *http.Request) ([]string, bool) { return []string{"t"}, true }
	case 3:
		srv.OnSession = func(http.ResponseWriter, *http.Request) ([]string, bool) { return []string{}, true }
	case 4:
		srv.OnSession = func(http.ResponseWriter, *http.Request) ([]string, bool) { return nil, false }
	case 5:
		srv.OnSession = func(http.ResponseWriter, *http.Request) ([]string, bool) { return []string{"t"}, false }
	case 6:
		srv.OnSession = func(w http.ResponseWriter, _ *http.Request) ([]string, bool) {
			wrote401 = true
			w.WriteHeader(http.StatusUnauthorized)
			return nil, false
		}
	case 7:
		srv.OnSession = func(http.ResponseWriter, *http.Request) ([]string, bool) { return []string{"t", "u"}, true }
	}
	req := httptest.NewRequest(http.MethodGet, "/", http.NoBody)
	if h := headers[c.Header]; h != nil {
		req.Header["Last-Event-Id"] = h
	}
	switch c.ReqCtx {
	case 1:
		ctx, cancel := context.WithCancel(req.Context())
		cancel()
		req = req.WithContext(ctx)
	case 2:
		ctx, cancel := context.WithDeadline(req.Context(), time.Unix(1, 0))
		defer cancel()
		req = req.WithContext(ctx)
	}
	srv.ServeHTTP(sh.Make(r), req)
	desc := fmt.Sprintf("writer %s, Last-Event-Id %q, OnSession %s, provider mode %d", sh.Name, headers[c.Header], onSessionNames[c.OnSession], c.Provider)
	if c.ReqCtx > 0 {
		desc += fmt.Sprintf(", request context already %s", []string{"", "cancelled", "past its deadline"}[c.ReqCtx])
	}
	if b := c.Before; b != nil {
		desc += fmt.Sprintf(" (served right after: Last-Event-Id %q, OnSession %s, provider mode %d)", headers[b.Header], onSessionNames[b.OnSession], b.Provider)
	}
	v := func(sig, format string, args ...any) string {
		return "C16: " + sig + "\x00" + desc + ": " + fmt.Sprintf(format, args...) + " (underlying calls: " + strings.Join(r.log, " ") + ")"
	}
	if !sh.CanFlush {
		if prov.called != 0 {
			return v("the provider is subscribed although the writer cannot flush", "Subscribe called %d times", prov.called)
		}
		if r.status != http.StatusInternalServerError {
			return v("no 500 when the response writer cannot flush", "status %d", r.status)
		}
		return ""
	}
	rejected := c.OnSession >= 4 && c.OnSession <= 6
	if rejected {
		if prov.called != 0 {
			return v("the provider is subscribed although OnSession rejected the request", "Subscribe called %d times", prov.called)
		}
		wantLog := ""
		if wrote401 {
			wantLog = "WH401"
		}
		if strings.Join(r.log, " ") != wantLog {
			return v("ServeHTTP writes something of its own when OnSession rejects", "expected only what OnSession wrote (%q)", wantLog)
		}
		if len(r.hdr) != 0 {
			return v("ServeHTTP sets response headers of its own when OnSession rejects", "header map %v, OnSession set none", r.hdr)
		}
		return ""
	}
	if prov.called != 1 {
		return v("the provider is not subscribed exactly once", "Subscribe called %d times", prov.called)
	}
	// LastEventID
	h := headers[c.Header]
	wantSet := len(h) > 0 && h[0] != "" && !strings.ContainsAny(h[0], "\r\n")
	got := prov.sub.LastEventID
	if got.IsSet() != wantSet || (wantSet && got.String() != h[0]) {
		return v("the subscription's LastEventID does not reflect the Last-Event-ID header", "IsSet=%v value %q", got.IsSet(), got.String())
	}
	// topics
	wantTopics := []string{sse.DefaultTopic}
	switch c.OnSession {
	case 2:
		wantTopics = []string{"t"}
	case 7:
		wantTopics = []string{"t", "u"}
	}
	if strings.Join(prov.sub.Topics, ",") != strings.Join(wantTopics, ",") || len(prov.sub.Topics) != len(wantTopics) {
		return v("the subscription's topics are not the ones chosen by OnSession (DefaultTopic if none)", "topics %q, want %q", prov.sub.Topics, wantTopics)
	}
	if prov.sub.Client == nil {
		return v("the subscription has no client", "")
	}
	if c.FailAt > 0 {
		// the provider's Send/Flush failed and it returned that error. If not a single body byte went out, the
		// refusal came "before anything was sent": 500.
		if len(r.body) == 0 && r.failed && (c.Provider == 2 || c.Provider == 3) && r.status != http.StatusInternalServerError {
			return v("no 500 when the subscription ended with an error before anything was sent", "status %d", r.status)
		}
		return ""
	}
	switch c.Provider {
	case 1:
		if r.status != http.StatusInternalServerError {
			return v("no 500 when the provider refuses the subscription before anything was sent", "status %d", r.status)
		}
	case 0:
		if r.status == http.StatusInternalServerError {
			return v("500 although the subscription ended without error", "status %d", r.status)
		}
	case 2, 3:
		if !strings.HasPrefix(string(r.body), "data: x\n\n") {
			return v("the event sent by the provider is not the start of the body", "body %q", r.body)
		}
		if r.ctAtFirstWrite != "text/event-stream" || !r.firstWriteFlushed {
			return v("body bytes before the Content-Type header was set and flushed", "Content-Type at first byte %q, flushed before: %v", r.ctAtFirstWrite, r.firstWriteFlushed)
		}
	}
	return ""
}

var Check = &sqrun.Check{ID: "C16", QuickBudget: 60, ThoroughBudget: 600,
	Run: func(c *sqrun.Ctx) *sqrun.Outcome {
		depth := 4
		if c.Thorough {
			depth = 6
		}
		var cases, nontriv int64
		seen := map[string]bool{}
		report := func(v string, cs any) {
			i := strings.IndexByte(v, 0)
			sig, msg := v[:i], v[i+1:]
			if seen[sig] {
				return
			}
			seen[sig] = true
			c.Rep.Add(sig, msg, func() string {
				return ev.WriteReplay("C16", sig, map[string]any{"property": "C16", "case": cs, "violation": msg, "signature": sig})
			})
		}
		var samples []any
		// sessions: every op sequence x shape x fault position
		var seqs [][]int
		var rec func(pre []int)
		rec = func(pre []int) {
			if len(pre) > 0 {
				seqs = append(seqs, append([]int(nil), pre...))
			}
			if len(pre) == depth {
				return
			}
			for op := 0; op < 4; op++ {
				rec(append(pre, op))
			}
		}
		rec(nil)
		for si := range Shapes {
			for _, ops := range seqs {
				for _, preset := range []bool{false, true} {
					base := SessCase{Shape: si, Ops: ops, PresetCT: preset}
					cases++
					v, ncalls, log := judgeSession(base)
					if v != "" {
						report(v, base)
						continue
					}
					if len(samples) < 2 && len(ops) == 3 && si == 1 {
						samples = append(samples, base.String())
					}
					// every underlying call fails in turn; a Write with every short count
					for k := 1; k <= ncalls; k++ {
						maxAcc := 0
						if strings.HasPrefix(log[k-1], "F") && !Shapes[si].FlushReports {
							continue // a void Flush cannot report a failure: nothing to inject
						}
						if strings.HasPrefix(log[k-1], "W") {
							fmt.Sscanf(log[k-1], "W%d", &maxAcc)
						}
						for acc := 0; acc <= maxAcc; acc++ {
							fc := SessCase{Shape: si, Ops: ops, FailAt: k, Accept: acc, PresetCT: preset}
							cases++
							nontriv++
							if v, _, _ := judgeSession(fc); v != "" {
								report(v, fc)
							}
						}
					}
				}
			}
		}
		sessCases := cases
		// pairs of requests: what one request leaves behind must not reach the next
		befores := []ServCase{{Header: 2, OnSession: 4}, {Header: 2, OnSession: 6}, {Header: 2, OnSession: 1}, {Header: 2, OnSession: 2, Provider: 1}, {Header: 4, OnSession: 5, Provider: 2}}
		for bi := range befores {
			for si := range Shapes {
				befores[bi].Shape = si
				if !Shapes[si].CanFlush {
					continue
				}
				for hi := range headers {
					for oi := range onSessionNames {
						for pm := 0; pm <= 1; pm++ {
							b := befores[bi]
							sc := ServCase{Shape: si, Header: hi, OnSession: oi, Provider: pm, HeaderVal: headers[hi], Before: &b}
							cases++
							nontriv++
							if v := judgeServer(sc); v != "" {
								report(v, sc)
							}
						}
					}
				}
			}
		}
		for si := range Shapes {
			for hi := range headers {
				for oi := range onSessionNames {
					for pm := 0; pm <= 3; pm++ {
						for fail := 0; fail <= 3; fail++ {
							if fail > 0 && (!Shapes[si].FlushReports || pm < 2 || hi > 1) {
								continue
							}
							for rc := 0; rc <= 2; rc++ {
								sc := ServCase{Shape: si, Header: hi, OnSession: oi, Provider: pm, HeaderVal: headers[hi], FailAt: fail, ReqCtx: rc}
								cases++
								nontriv++
								if v := judgeServer(sc); v != "" {
									report(v, sc)
								}
							}
						}
					}
				}
			}
		}
		samples = append(samples, SessCase{Shape: 2, Ops: []int{0, 3, 1}, FailAt: 4, Accept: 2}.String(), ServCase{Shape: 0, Header: 3, OnSession: 3, Provider: 1})
		cov := ev.Coverage{"evaluations": cases, "distinct_nontrivial": nontriv, "exhaustive": true, "session_cases": sessCases, "server_cases": cases - sessCases,
			"samples": samples,
			"rule":    fmt.Sprintf("Session: every sequence of <= %d operations from %q x %d ResponseWriter shapes (Flusher, FlushError, both, each behind one/two Unwrap layers, none) x no fault / a fault at every individual call of the underlying writer (a failing Write with every short count 0..len, a failing flush), judged on the ordered log of Header/Write/WriteHeader/Flush calls of a recording writer. Server: ServeHTTP x the same shapes x %d Last-Event-Id header values x %d OnSession behaviours x 4 provider behaviours x 3 request contexts (live, already cancelled, past its deadline); and each such request served right after one of 5 other requests (rejected / accepted / refused by the provider, with a Last-Event-Id) on the same goroutine. Non-trivial = every faulted session case and every server case.", depth, opNames, len(Shapes), len(headers), len(onSessionNames))}
		return &sqrun.Outcome{Level: "fault_enumeration", Coverage: cov, Assumptions: []string{
			"a writer that only offers the void http.Flusher cannot report flush failures; flush faults are injected only where FlushError exists (and there a swallowed failure is a violation)",
			"'the header is set only once' is observed by removing Content-Type from the header map after the first successful flush and checking it never reappears",
		}}
	},
	Replay: func(c *sqrun.Ctx, path string) int {
		b, err := os.ReadFile(path)
		if err != nil {
			fmt.Fprintln(os.Stderr, err)
			return 2
		}
		var rf struct {
			Case json.RawMessage `json:"case"`
		}
		_ = json.Unmarshal(b, &rf)
		var v string
		var sc SessCase
		var sv ServCase
		if strings.Contains(string(rf.Case), "\"ops\"") && json.Unmarshal(rf.Case, &sc) == nil {
			v, _, _ = judgeSession(sc)
		} else if json.Unmarshal(rf.Case, &sv) == nil {
			v = judgeServer(sv)
		}
		if v != "" {
			i := strings.IndexByte(v, 0)
			fmt.Printf("VIOLATION property=C16 replay=%s\n  %s\n", path, v[i+1:])
			return 1
		}
		fmt.Println("no violation for this case")
		return 0
	},
}
