// Package c16: Session and Server keep the HTTP side of the protocol. DESIGN.md section 4, C16.
package c16

import (
	"errors"
	"fmt"
	"net/http"
)

var errFault = errors.New("scripted writer failure")

// rec is the recording, fault-injecting core shared by all writer shapes.
type rec struct {
	hdr                  http.Header
	log                  []string
	body                 []byte
	calls                int // Write / flush calls so far (the fault counter)
	failAt               int // this call fails (0: never)
	accept               int // a failing Write accepts this many bytes
	failed               bool
	unflushed            bool // body bytes written since the last flush
	flushes              int
	firstWriteFlushed    bool
	ctAtFirstWrite       string
	ctValuesAtFirstWrite int
	status               int
	stripCT              bool // remove Content-Type after the first successful flush to detect a second setting
	stripped             bool
	ctReset              bool
	afterFail            int
	ctOnWire             []string // Content-Type values in the header map at the first successful flush
}

func newRec() *rec { return &rec{hdr: http.Header{}} }

func (r *rec) Header() http.Header {
	return r.hdr
}

func (r *rec) checkCT() {
	if r.stripped && len(r.hdr["Content-Type"]) > 0 {
		r.ctReset = true
	}
}

func (r *rec) Write(p []byte) (int, error) {
	r.checkCT()
	if r.failed {
		r.afterFail++
	}
	r.calls++
	if len(r.body) == 0 && len(p) > 0 {
		r.firstWriteFlushed = r.flushes > 0
		if v := r.hdr["Content-Type"]; len(v) > 0 {
			r.ctAtFirstWrite = v[0]
			r.ctValuesAtFirstWrite = len(v)
		} else if r.stripped {
			r.ctValuesAtFirstWrite = 1
			r.ctAtFirstWrite = "text/event-stream" // removed by the recorder after it was flushed
		}
	}
	if r.calls == r.failAt {
		n := r.accept
		if n > len(p) {
			n = len(p)
		}
		r.body = append(r.body, p[:n]...)
		r.log = append(r.log, fmt.Sprintf("W!%d/%d", n, len(p)))
		r.failed = true
		return n, errFault
	}
	r.body = append(r.body, p...)
	r.unflushed = true
	r.log = append(r.log, fmt.Sprintf("W%d", len(p)))
	return len(p), nil
}

func (r *rec) WriteHeader(code int) {
	r.checkCT()
	if r.status == 0 {
		r.status = code
	}
	r.log = append(r.log, fmt.Sprintf("WH%d", code))
}

// flush is one flush attempt; canFail: the method called can report an error.
func (r *rec) flush(canFail bool) error {
	r.checkCT()
	if r.failed {
		r.afterFail++
	}
	r.calls++
	if r.calls == r.failAt {
		r.failed = true
		if canFail {
			r.log = append(r.log, "FE!")
			return errFault
		}
		// the failure cannot be reported through a void Flush: it is lost
		r.log = append(r.log, "F!lost")
		return nil
	}
	r.flushes++
	r.unflushed = false
	if r.flushes == 1 {
		r.ctOnWire = append([]string(nil), r.hdr["Content-Type"]...)
	}
	if canFail {
		r.log = append(r.log, "FE")
	} else {
		r.log = append(r.log, "F")
	}
	if r.stripCT && !r.stripped && r.flushes == 1 {
		delete(r.hdr, "Content-Type")
		r.stripped = true
	}
	return nil
}

// the shapes
type wNone struct{ *rec }

type wF struct{ *rec }

func (w wF) Flush() { _ = w.flush(false) }

type wFE struct{ *rec }

func (w wFE) FlushError() error { return w.flush(true) }

type wBoth struct{ *rec }

func (w wBoth) Flush()            { _ = w.flush(false) }
func (w wBoth) FlushError() error { return w.flush(true) }

// wrap hides everything but the ResponseWriter methods and offers Unwrap.
type wrap struct{ inner http.ResponseWriter }

func (w wrap) Header() http.Header         { return w.inner.Header() }
func (w wrap) Write(p []byte) (int, error) { return w.inner.Write(p) }
func (w wrap) WriteHeader(c int)           { w.inner.WriteHeader(c) }
func (w wrap) Unwrap() http.ResponseWriter { return w.inner }

type Shape struct {
	Name     string
	CanFlush bool
	// FlushReports: a failing flush can be reported (the writer offers FlushError).
	FlushReports bool
	Make         func(r *rec) http.ResponseWriter
}

var Shapes = []Shape{
	{"Flusher", true, false, func(r *rec) http.ResponseWriter { return wF{r} }},
	{"FlushError", true, true, func(r *rec) http.ResponseWriter { return wFE{r} }},
	{"Flusher+FlushError", true, true, func(r *rec) http.ResponseWriter { return wBoth{r} }},
	{"Unwrap(Flusher)", true, false, func(r *rec) http.ResponseWriter { return wrap{wF{r}} }},
	{"Unwrap(Unwrap(FlushError))", true, true, func(r *rec) http.ResponseWriter { return wrap{wrap{wFE{r}}} }},
	{"Unwrap(Flusher+FlushError)", true, true, func(r *rec) http.ResponseWriter { return wrap{wBoth{r}} }},
	{"none", false, false, func(r *rec) http.ResponseWriter { return wNone{r} }},
	{"Unwrap(none)", false, false, func(r *rec) http.ResponseWriter { return wrap{wNone{r}} }},
}
