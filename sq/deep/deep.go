// Package deep reads private state without hooks: a reflective walker (unsafe for unexported fields)
// that produces a canonical structural hash of an object graph and the set of *sse.Message reachable
// from a root. Slices are walked up to their capacity (what the garbage collector sees). It knows no
// field names, so it survives refactorings. DESIGN.md section 2.3.
package deep

import (
	"reflect"
	"sort"
	"time"
	"unsafe"

	sse "github.com/tmaxmax/go-sse"
)

var (
	msgPtrType = reflect.TypeOf((*sse.Message)(nil))
	timeType   = reflect.TypeOf(time.Time{})
)

type walker struct {
	h       uint64
	seen    map[unsafe.Pointer]int
	msgs    map[*sse.Message]bool
	order   []*sse.Message
	byIdent bool // hash messages by identity rank (first-seen order) in addition to content
	shape   *Shape
}

// Shape selects the shape abstraction of the hash: message identity and content are dropped (a message is
// just "a message"), instants are taken relative to Now and all instants at least Horizon before Now count as the same ("past"),
// and unsigned 64-bit counters are ignored. What remains is the shape of the data structure: lengths,
// capacities, indices, topic lists, which slots are filled, and the time left until each future instant.
type Shape struct {
	Now time.Time
	// Horizon: past instants less than Horizon ago keep their distance to Now (how long ago the last collection
	// was decides when the next one is due); older ones count as the same.
	Horizon time.Duration
}

func mix(h, v uint64) uint64 {
	h ^= v + 0x9e3779b97f4a7c15 + (h << 6) + (h >> 2)
	h *= 0xff51afd7ed558ccd
	h ^= h >> 33
	return h
}

func hashString(s string) uint64 {
	h := uint64(14695981039346656037)
	for i := 0; i < len(s); i++ {
		h ^= uint64(s[i])
		h *= 1099511628211
	}
	return h
}

// clean returns v with the read-only (unexported) flag removed; v must be addressable.
func clean(v reflect.Value) reflect.Value {
	if !v.CanAddr() {
		return v
	}
	return reflect.NewAt(v.Type(), unsafe.Pointer(v.UnsafeAddr())).Elem()
}

func (w *walker) walk(v reflect.Value) {
	v = clean(v)
	switch v.Kind() {
	case reflect.Ptr:
		if v.IsNil() {
			w.h = mix(w.h, 0)
			return
		}
		if v.Type() == msgPtrType {
			m := v.Interface().(*sse.Message)
			if !w.msgs[m] {
				w.msgs[m] = true
				w.order = append(w.order, m)
			}
			if w.shape != nil {
				w.h = mix(w.h, 0x4d)
				return
			}
			w.h = mix(w.h, hashString(m.String())^0x55)
			return
		}
		p := v.UnsafePointer()
		if n, ok := w.seen[p]; ok {
			w.h = mix(w.h, uint64(n)+1000)
			return
		}
		w.seen[p] = len(w.seen)
		w.h = mix(w.h, 1)
		w.walk(v.Elem())
	case reflect.Struct:
		if v.Type() == timeType {
			t := v.Interface().(time.Time)
			if t.IsZero() {
				w.h = mix(w.h, 7)
			} else if w.shape != nil {
				if d := t.Sub(w.shape.Now); d <= -w.shape.Horizon {
					w.h = mix(w.h, 8)
				} else {
					w.h = mix(w.h, uint64(d))
				}
			} else {
				w.h = mix(w.h, uint64(t.UnixNano()))
			}
			return
		}
		for i := 0; i < v.NumField(); i++ {
			w.walk(v.Field(i))
		}
	case reflect.Slice:
		if v.IsNil() {
			w.h = mix(w.h, 2)
			return
		}
		w.h = mix(mix(w.h, uint64(v.Len())), uint64(v.Cap()))
		full := v.Slice3(0, v.Cap(), v.Cap())
		for i := 0; i < full.Len(); i++ {
			w.walk(full.Index(i))
		}
	case reflect.Array:
		for i := 0; i < v.Len(); i++ {
			w.walk(v.Index(i))
		}
	case reflect.Interface:
		if v.IsNil() {
			w.h = mix(w.h, 3)
			return
		}
		e := v.Elem()
		w.h = mix(w.h, hashString(e.Type().String()))
		if e.Kind() == reflect.Ptr {
			w.walk(e)
		} else {
			c := reflect.New(e.Type()).Elem()
			c.Set(e)
			w.walk(c)
		}
	case reflect.Map:
		if v.IsNil() {
			w.h = mix(w.h, 4)
			return
		}
		var hs []uint64
		it := v.MapRange()
		for it.Next() {
			sub := &walker{seen: w.seen, msgs: w.msgs}
			k := reflect.New(it.Key().Type()).Elem()
			k.Set(it.Key())
			sub.walk(k)
			val := reflect.New(it.Value().Type()).Elem()
			val.Set(it.Value())
			sub.walk(val)
			w.order = append(w.order, sub.order...)
			hs = append(hs, sub.h)
		}
		sort.Slice(hs, func(i, j int) bool { return hs[i] < hs[j] })
		for _, x := range hs {
			w.h = mix(w.h, x)
		}
	case reflect.String:
		w.h = mix(w.h, hashString(v.String()))
	case reflect.Bool:
		if v.Bool() {
			w.h = mix(w.h, 11)
		} else {
			w.h = mix(w.h, 12)
		}
	case reflect.Int, reflect.Int8, reflect.Int16, reflect.Int32, reflect.Int64:
		w.h = mix(w.h, uint64(v.Int()))
	case reflect.Uint, reflect.Uint8, reflect.Uint16, reflect.Uint32, reflect.Uint64, reflect.Uintptr:
		if w.shape != nil && v.Kind() == reflect.Uint64 {
			w.h = mix(w.h, 13)
			return
		}
		w.h = mix(w.h, v.Uint())
	case reflect.Float32, reflect.Float64:
		w.h = mix(w.h, uint64(v.Float()*1e6))
	case reflect.Func, reflect.Chan, reflect.UnsafePointer:
		// behaviourally opaque here (ValidReplayer.Now is supplied by the harness)
	}
}

// Hash returns the structural hash of the object graph under root (a pointer).
func Hash(root any) uint64 {
	w := &walker{seen: map[unsafe.Pointer]int{}, msgs: map[*sse.Message]bool{}}
	w.walk(reflect.ValueOf(root))
	return w.h
}

// ShapeHash returns the hash of the object graph under the shape abstraction.
func ShapeHash(root any, sh Shape) uint64 {
	w := &walker{seen: map[unsafe.Pointer]int{}, msgs: map[*sse.Message]bool{}, shape: &sh}
	w.walk(reflect.ValueOf(root))
	return w.h
}

// Messages returns the distinct *sse.Message reachable from root (slices walked to capacity).
func Messages(root any) []*sse.Message {
	w := &walker{seen: map[unsafe.Pointer]int{}, msgs: map[*sse.Message]bool{}}
	w.walk(reflect.ValueOf(root))
	return w.order
}
