package rep

import (
	"encoding/json"
	"fmt"
	"os"
	"runtime"
	"strconv"
	"strings"
	"sync"
	"sync/atomic"

	"verif/ev"
	"verif/sq/bfs"
	"verif/sq/sqrun"
)

type replayFile struct {
	Property string   `json:"property"`
	Kind     string   `json:"kind"`
	Config   any      `json:"config"`
	History  []uint8  `json:"history"`
	Ops      []string `json:"operations"`
	Msg      string   `json:"violation"`
	Sig      string   `json:"signature"`
	How      string   `json:"how_to_replay"`
}

func opNames(alphabet []string, h []uint8) []string {
	var out []string
	for _, o := range h {
		out = append(out, alphabet[o])
	}
	return out
}

// knownFilter wraps a visit function: violations whose signature is a known finding are counted and
// the search goes on; anything else stops it.
func knownFilter(c *sqrun.Ctx, mu *sync.Mutex, visit func(h []uint8) (uint64, bool, string)) func(h []uint8) (uint64, bool, string) {
	return func(h []uint8) (uint64, bool, string) {
		k, ok, v := visit(h)
		if v != "" {
			sig, _ := SplitViol(v)
			if _, known := c.Rep.Known[sig]; known {
				mu.Lock()
				c.Rep.KnownHit[sig]++
				mu.Unlock()
				return k ^ 0x5a5a, ok, ""
			}
		}
		return k, ok, v
	}
}

func finiteCheck(prop, which string) *sqrun.Check {
	return &sqrun.Check{ID: prop, QuickBudget: 60, ThoroughBudget: 600,
		Run: func(c *sqrun.Ctx) *sqrun.Outcome {
			caps := []int{2, 3, 4}
			if c.Thorough {
				caps = []int{2, 3, 4, 5, 6, 7}
			}
			var states, trans, probes int64
			exhaustive := true
			var samples []any
			var per []map[string]any
			var mu sync.Mutex
			for _, n := range caps {
				for _, auto := range []bool{false, true} {
					cfg := FiniteCfg{N: n, Auto: auto}
					depth := 4*n + 2
					if c.Thorough {
						depth = 6*n + 3
					}
					var pr atomic.Int64
					visit := func(h []uint8) (uint64, bool, string) {
						var p int64
						k, ok, v := VisitFinite(cfg, h, which, &p)
						pr.Add(p)
						return k, ok, v
					}
					res := bfs.Run(bfs.Config{NOps: len(FiniteOps), MaxDepth: depth, Deadline: c.Deadline, Visit: knownFilter(c, &mu, visit)})
					states += res.States
					trans += res.Transitions
					probes += pr.Load()
					if !res.Exhaustive {
						exhaustive = false
					}
					per = append(per, map[string]any{"capacity": n, "auto_ids": auto, "depth": res.Depth, "states": res.States, "transitions": res.Transitions, "probes": pr.Load(), "exhaustive": res.Exhaustive})
					if len(samples) < 3 && len(res.Samples) > 0 {
						samples = append(samples, map[string]any{"config": cfg, "history": opNames(FiniteOps, res.Samples[len(res.Samples)-1])})
					}
					if res.Violation != "" {
						sig, msg := SplitViol(res.Violation)
						hist := res.History
						c.Rep.Add(sig, msg, func() string {
							return ev.WriteReplay(prop, fmt.Sprintf("finite-n%d-auto%v-%s", n, auto, sig), replayFile{Property: prop, Kind: "finite", Config: cfg,
								History: hist, Ops: opNames(FiniteOps, hist), Msg: msg, Sig: sig, How: "./check " + prop + " --replay <this file>"})
						})
					}
				}
			}
			// every capacity up to 48 (thorough 130), 64 and 100: one all-Put history per length around the wrap points, all probes
			sweep := 0
			if which == "C08" {
				maxN := 48
				if c.Thorough {
					maxN = 130
				}
				var ns []int
				for n := 5; n <= maxN; n++ {
					ns = append(ns, n)
				}
				if !c.Thorough {
					ns = append(ns, 64, 100)
				}
				var wg sync.WaitGroup
				var smu sync.Mutex
				sem := make(chan struct{}, runtime.NumCPU())
				for _, n := range ns {
					wg.Add(1)
					sem <- struct{}{}
					go func() {
						defer wg.Done()
						defer func() { <-sem }()
						k := linearFinite(c, "C08", n)
						smu.Lock()
						sweep += k
						smu.Unlock()
					}()
				}
				wg.Wait()
			}
			cov := ev.Coverage{"states": states, "transitions": trans, "traces_validated_against_impl": trans,
				"evaluations": trans + probes + int64(sweep), "distinct_nontrivial": states, "exhaustive": exhaustive, "probes": probes,
				"linear_capacity_sweep_histories": sweep,
				"rule":                            "Explicit-state BFS over operation histories of the real FiniteReplayer (fresh object per history, re-executed), alphabet " + strings.Join(FiniteOps, " | ") + ", capacities and depths per configuration below; states deduplicated by the reflective hash of the replayer's concrete private state plus the reference model; in every state every probe Replay(ID x topics x failing-Send position) is compared with a list model of the last N accepted events. Plus, for every capacity 5..48 (thorough: ..130), 64 and 100, the all-Put histories of length N-1, N, N+1, 2N-1, 2N, 2N+1, 3N+2 in both ID modes with all probes. distinct_nontrivial = distinct concrete states.",
				"samples":                         samples, "per_configuration": per}
			return &sqrun.Outcome{Level: "model_checking", Coverage: cov, Assumptions: []string{
				"equal concrete state (reflective hash over all private fields, slices to capacity) and deterministic code imply equal futures",
				"with automatic IDs, an ID that was issued but is already evicted is outside the property: only order/uniqueness/topic clauses are checked for it",
			}}
		},
		Replay: func(c *sqrun.Ctx, path string) int {
			return replayFinite(prop, which, path)
		},
	}
}

func replayFinite(prop, which, path string) int {
	b, err := os.ReadFile(path)
	if err != nil {
		fmt.Fprintln(os.Stderr, err)
		return 2
	}
	var rf struct {
		Kind    string
		Config  json.RawMessage
		History []uint8
	}
	if err := json.Unmarshal(b, &rf); err != nil {
		fmt.Fprintln(os.Stderr, err)
		return 2
	}
	var v string
	switch rf.Kind {
	case "finite":
		var cfg FiniteCfg
		_ = json.Unmarshal(rf.Config, &cfg)
		var p int64
		_, _, v = VisitFinite(cfg, rf.History, which, &p)
		fmt.Println("operations:", opNames(FiniteOps, rf.History))
	case "valid":
		var cfg ValidCfg
		_ = json.Unmarshal(rf.Config, &cfg)
		var p int64
		_, _, v = VisitValid(cfg, rf.History, which, &p)
		fmt.Println("operations:", opNames(ValidOps, cfg.mapOps(rf.History)))
	}
	if v != "" {
		_, msg := SplitViol(v)
		fmt.Printf("VIOLATION property=%s replay=%s\n  %s\n", prop, path, msg)
		return 1
	}
	fmt.Println("no violation for this history")
	return 0
}

// linearFinite checks one long all-Put history at capacity n (both ID modes) at the lengths around the wrap points.
func linearFinite(c *sqrun.Ctx, which string, n int) int {
	count := 0
	for _, auto := range []bool{false, true} {
		cfg := FiniteCfg{N: n, Auto: auto}
		for _, l := range []int{n - 1, n, n + 1, 2*n - 1, 2 * n, 2*n + 1, 3*n + 2} {
			h := make([]uint8, l)
			var p int64
			count++
			visit := func() (v string) {
				defer func() {
					if r := recover(); r != nil {
						v = viol("panic", "FiniteReplayer(N=%d, autoIDs=%v) after %d x Put{a}: the code under test panicked: %v", n, auto, l, r)
					}
				}()
				_, _, v = VisitFinite(cfg, h, which, &p)
				return v
			}
			if v := visit(); v != "" {
				sig, msg := SplitViol(v)
				c.Rep.Add(sig, msg, func() string {
					return ev.WriteReplay(c.Prop, fmt.Sprintf("finite-n%d-auto%v-linear-%s", n, auto, sig), replayFile{Property: c.Prop, Kind: "finite", Config: cfg,
						History: h, Ops: []string{fmt.Sprintf("%d x Put{a}", l)}, Msg: msg, Sig: sig, How: "./check " + c.Prop + " --replay <this file>"})
				})
				return count
			}
		}
	}
	return count
}

var C08 = finiteCheck("C08", "C08")

func validConfigs(thorough bool) []ValidCfg {
	var out []ValidCfg
	for _, ttl := range []int{2, 3} {
		for _, gc := range []int{-1, 0, 4, 4 * ttl, 8 * ttl} { // default TTL/4, disabled, 1 tick, TTL, 2*TTL
			for _, auto := range []bool{false, true} {
				c := ValidCfg{TTL: ttl, GC: gc, Auto: auto, MaxAdvances: 5, MaxMacros: 2}
				if thorough {
					c.MaxAdvances, c.MaxMacros = 6, 3
				}
				out = append(out, c)
			}
		}
	}
	// rejected Puts (ID wrong for the mode) between the others: they must neither store nor count as a collection
	for _, gc := range []int{-1, 8} {
		for _, auto := range []bool{false, true} {
			out = append(out, ValidCfg{TTL: 2, GC: gc, Auto: auto, MaxAdvances: 5, MaxMacros: 1, Ops: []int{0, 9, 3, 4, 5, 8}, RejectedPuts: true})
		}
	}
	// an injected clock that runs 25 years behind the machine's
	for _, gc := range []int{-1, 8} {
		for _, auto := range []bool{false, true} {
			out = append(out, ValidCfg{TTL: 2, GC: gc, Auto: auto, MaxAdvances: 5, MaxMacros: 1, PastClock: true})
		}
	}
	// a TTL of 2^33 s (272 years: expiry instants lie beyond what UnixNano can represent), no big time steps
	for _, gc := range []int{-1, 0} {
		for _, auto := range []bool{false, true} {
			out = append(out, ValidCfg{TTL: 1 << 33, GC: gc, Auto: auto, MaxAdvances: 3, MaxMacros: 1, Ops: []int{0, 1, 3, 4, 6, 8}, HugeTTL: true})
		}
	}
	// deep search under the shape abstraction (reaches wrapped, grown and shrunk rings far beyond the depth
	// the exact search can afford)
	for _, ttl := range []int{2, 3} {
		for _, gc := range []int{-1, 0, 4 * ttl} {
			for _, auto := range []bool{false, true} {
				c := ValidCfg{TTL: ttl, GC: gc, Auto: auto, MaxAdvances: 12, MaxMacros: 3, Shape: true, Ops: []int{0, 3, 4, 5, 6, 7}, MaxHeld: 18}
				if thorough {
					c.MaxAdvances, c.MaxMacros, c.MaxHeld = 20, 4, 36
				}
				out = append(out, c)
			}
		}
	}
	return out
}

func validCheck(prop, which string) *sqrun.Check {
	return &sqrun.Check{ID: prop, QuickBudget: 150, ThoroughBudget: 900,
		Run: func(c *sqrun.Ctx) *sqrun.Outcome {
			var states, trans, probes int64
			exhaustive := true
			var samples []any
			var per []map[string]any
			var mu sync.Mutex
			depth := 7
			if c.Thorough {
				depth = 8
			}
			if d, err := strconv.Atoi(os.Getenv("VERIF_VALID_DEPTH")); err == nil {
				depth = d
			}
			for _, cfg := range validConfigs(c.Thorough) {
				cfg := cfg
				var pr atomic.Int64
				visit := func(h []uint8) (uint64, bool, string) {
					var p int64
					k, ok, v := VisitValid(cfg, h, which, &p)
					pr.Add(p)
					return k, ok, v
				}
				d := depth
				if cfg.Shape {
					d = 18
					if c.Thorough {
						d = 28
					} else if cfg.TTL == 3 && cfg.GC > 4 {
						d = 15 // the widest horizon (past instants up to 3 ticks back are told apart): a shallower bound
					}
				} else if cfg.HugeTTL {
					d = 5
				} else if cfg.PastClock {
					d = 6
				} else if cfg.RejectedPuts {
					d = 7
				} else if !c.Thorough {
					if cfg.TTL == 3 {
						d = depth - 2
					} else if cfg.GC == 4 || cfg.GC == 8*cfg.TTL {
						d = depth - 1
					}
				}
				cfg.Depth = d
				if cfg.Ops == nil {
					cfg.Ops = defaultValidOps
				}
				nops := len(ValidOps)
				if cfg.Ops != nil {
					nops = len(cfg.Ops)
				}
				res := bfs.Run(bfs.Config{NOps: nops, MaxDepth: d, Deadline: c.Deadline, Visit: knownFilter(c, &mu, visit)})
				states += res.States
				trans += res.Transitions
				probes += pr.Load()
				if !res.Exhaustive {
					exhaustive = false
				}
				per = append(per, map[string]any{"config": cfg, "depth": res.Depth, "states": res.States, "transitions": res.Transitions, "probes": pr.Load(), "exhaustive": res.Exhaustive})
				if len(samples) < 3 && len(res.Samples) > 0 {
					samples = append(samples, map[string]any{"config": cfg, "history": opNames(ValidOps, cfg.mapOps(res.Samples[len(res.Samples)-1]))})
				}
				if res.Violation != "" {
					sig, msg := SplitViol(res.Violation)
					hist := res.History
					c.Rep.Add(sig, msg, func() string {
						return ev.WriteReplay(prop, fmt.Sprintf("valid-ttl%d-gc%d-auto%v-%s", cfg.TTL, cfg.GC, cfg.Auto, sig), replayFile{Property: prop, Kind: "valid", Config: cfg,
							History: hist, Ops: opNames(ValidOps, cfg.mapOps(hist)), Msg: msg, Sig: sig, How: "./check " + prop + " --replay <this file>"})
					})
				}
			}
			cov := ev.Coverage{"states": states, "transitions": trans, "traces_validated_against_impl": trans,
				"evaluations": trans + probes, "distinct_nontrivial": states, "exhaustive": exhaustive, "probes": probes,
				"rule":    "Explicit-state BFS over operation histories of the real ValidReplayer with an injected clock (fresh object per history, re-executed), alphabet " + strings.Join(ValidOps, " | ") + "; TTL 2 and 3 ticks x GCInterval {default, 0, 1 tick, TTL, 2*TTL} x manual/automatic IDs; histories bounded by depth, clock advances and macro operations (per configuration below); states deduplicated by the reflective hash of the replayer's concrete private state plus clock and reference model; in every state every probe Replay(ID x topics x failing-Send position) is compared with a list model with per-entry expiry, every unexpired event must still be reachable, and right after a collection no expired event may be reachable. distinct_nontrivial = distinct concrete states.",
				"samples": samples, "per_configuration": per, "depth_bound": depth}
			return &sqrun.Outcome{Level: "model_checking", Coverage: cov, Assumptions: []string{
				"equal concrete state (reflective hash over all private fields, slices to capacity) and deterministic code imply equal futures",
				"for a presented ID whose event has expired (or was never issued with automatic IDs below the buffer head) only the universal clauses are checked: nothing expired, nothing non-matching, Put order, no duplicates",
				"'a collection has run' for a Put is decided by reference bookkeeping that is at least as late as any reading of 'the last collection' (first Put, last due Put, last explicit GC)",
			}}
		},
		Replay: func(c *sqrun.Ctx, path string) int { return replayFinite(prop, which, path) },
	}
}

var C09 = validCheck("C09", "C09")

// C18 runs both replayers with only the retention invariants.
var C18 = &sqrun.Check{ID: "C18", QuickBudget: 60, ThoroughBudget: 600,
	Run: func(c *sqrun.Ctx) *sqrun.Outcome {
		f := finiteCheck("C18", "C18").Run(c)
		v := validCheck("C18", "C18").Run(c)
		cov := v.Coverage
		for _, k := range []string{"states", "transitions", "traces_validated_against_impl", "evaluations", "distinct_nontrivial"} {
			cov[k] = cov[k].(int64) + f.Coverage[k].(int64)
		}
		cov["exhaustive"] = cov["exhaustive"].(bool) && f.Coverage["exhaustive"].(bool)
		// larger capacities, one long history each (thresholds that only show beyond small N)
		sweep := 0
		for n := 6; n <= 40; n++ {
			sweep += linearFinite(c, "C18", n)
		}
		for _, n := range []int{64, 100} {
			sweep += linearFinite(c, "C18", n)
		}
		cov["linear_capacity_sweep_histories"] = sweep
		cov["evaluations"] = cov["evaluations"].(int64) + int64(sweep)
		// finalizer probes for what reflection cannot see
		np, lv := runLeakProbes(c.Thorough)
		cov["finalizer_probe_scripts"] = np
		cov["evaluations"] = cov["evaluations"].(int64) + int64(np)
		if lv != "" {
			sig, msg := SplitViol(lv)
			c.Rep.Add(sig, msg, func() string {
				return ev.WriteReplay("C18", "finalizer-probe", map[string]any{"property": "C18", "violation": msg, "signature": sig, "how_to_replay": "./check C18 (the finalizer probe scripts are enumerated completely on every run)"})
			})
		}
		cov["per_configuration_finite"] = f.Coverage["per_configuration"]
		cov["samples"] = append(cov["samples"].([]any), f.Coverage["samples"].([]any)...)
		cov["rule"] = "Same state spaces as C08 (FiniteReplayer) and C09 (ValidReplayer), with the retention invariant evaluated in every reachable state: the set of *Message reachable from the replayer (reflective walk, slices to capacity - what the garbage collector sees) holds at most N messages, all among the last N accepted (finite); no message with expiry <= now right after a collection ran (valid). " + cov["rule"].(string)
		v.Assumptions = append(v.Assumptions, "reachability is computed by a reflective walk instead of finalizers + forced GC: deterministic, and a state invariant the search can evaluate everywhere")
		return v
	},
	Replay: func(c *sqrun.Ctx, path string) int { return replayFinite("C18", "C18", path) },
}
