// Package rep holds the explicit-state checks of the replayers: C08 (FiniteReplayer is a bounded FIFO),
// C09 (ValidReplayer replays exactly the unexpired events), C18 (no evicted/expired message stays reachable).
package rep

import (
	"errors"
	"fmt"
	"strconv"
	"strings"

	sse "github.com/tmaxmax/go-sse"

	"verif/sq/deep"
)

// probeWriter is the MessageWriter given to Replay in probes.
type probeWriter struct {
	sends    []string // IDs sent, in order
	calls    []byte   // 'S', 's' (failed send), 'F'
	failAt   int      // the failAt-th Send fails (0: never)
	failed   bool
	afterErr int // calls made after the failing Send
}

var errProbe = errors.New("probe: scripted Send failure")

func (w *probeWriter) Send(m *sse.Message) error {
	if w.failed {
		w.afterErr++
	}
	if w.failAt > 0 && len(w.sends)+1 == w.failAt && !w.failed {
		w.failed = true
		w.calls = append(w.calls, 's')
		return errProbe
	}
	w.sends = append(w.sends, m.ID.String())
	w.calls = append(w.calls, 'S')
	return nil
}

func (w *probeWriter) Flush() error {
	if w.failed {
		w.afterErr++
	}
	w.calls = append(w.calls, 'F')
	return nil
}

type entry struct {
	id     string
	topics []string
	exp    int64 // C09: expiry tick
}

func has(topics []string, t string) bool {
	for _, x := range topics {
		if x == t {
			return true
		}
	}
	return false
}

func intersects(a, b []string) bool {
	for _, x := range a {
		if has(b, x) {
			return true
		}
	}
	return false
}

var probeTopics = [][]string{{"a"}, {"b"}, {"c"}, {"a", "b"}}

// subscriptions with 3, 4, 5 and 8 topics of which exactly one is ever published to (matching must not depend
// on how many topics a subscription has)
var allProbeTopics = append(append([][]string{}, probeTopics...), []string{"c", "d", "a"}, []string{"c", "d", "e", "b"}, []string{"c", "d", "e", "f", "a"}, []string{"c", "d", "e", "f", "g", "h", "i", "b"})

var putTopics = [][]string{{"a"}, {"b"}, {"a", "b"}}

// FiniteOps is the operation alphabet of C08.
var FiniteOps = []string{"Put{a}", "Put{b}", "Put{a,b}", "Put(no topics)", "Put(ID wrong for the mode)", "Replay(oldest buffered ID, {a,b})", "Replay(oldest buffered ID, {a}, first Send fails)", "Put{a} with the empty (but set) ID"}

// stepReplayVerdict judges Replay(oldest buffered ID, {a,b}): everything after the oldest buffered event.
func stepReplayVerdict(w *probeWriter, rerr error, model []entry, c FiniteCfg, desc func() string) string {
	var want []string
	if len(model) > 0 {
		for _, e := range model[1:] {
			want = append(want, e.id)
		}
	}
	if strings.Join(w.sends, ",") != strings.Join(want, ",") || rerr != nil {
		rel := "less than expected"
		if len(w.sends) > len(want) {
			rel = "more than expected"
		}
		return viol(fmt.Sprintf("replay from the oldest buffered ID, as a step of the history (autoIDs=%v): %s", c.Auto, rel), "%s: Replay(oldest buffered ID, topics=[a b]) sent [%s] (error %v), want [%s] (buffer holds %s)", desc(), strings.Join(w.sends, ","), rerr, strings.Join(want, ","), modelString(model))
	}
	return ""
}

type FiniteCfg struct {
	N    int
	Auto bool
}

type finiteStats struct {
	Probes int64
}

func mkMsg(k int, withID bool) *sse.Message {
	m := &sse.Message{}
	m.AppendData("m" + strconv.Itoa(k))
	if withID {
		m.ID = sse.ID("e" + strconv.Itoa(k))
	}
	return m
}

func hashModel(buf []entry, extra uint64) uint64 {
	h := extra
	for _, e := range buf {
		for i := 0; i < len(e.id); i++ {
			h = h*1099511628211 ^ uint64(e.id[i])
		}
		for _, t := range e.topics {
			h = h*31 + uint64(len(t)) + uint64(t[0])
		}
		h = h*1099511628211 ^ uint64(e.exp)
	}
	return h
}

// VisitFinite rebuilds the state reached by hist, checks the last operation, all probes and the C18
// invariant in the final state. which selects the clauses: "C08", "C18" or "" (both).
func VisitFinite(c FiniteCfg, hist []uint8, which string, probes *int64) (uint64, bool, string) {
	r, err := sse.NewFiniteReplayer(c.N, c.Auto)
	if err != nil {
		return 0, false, "NewFiniteReplayer: " + err.Error()
	}
	var model []entry // last N accepted
	var issued []string
	next := 0
	usedEmpty := false
	desc := func() string {
		var ops []string
		for _, o := range hist {
			ops = append(ops, FiniteOps[o])
		}
		return fmt.Sprintf("FiniteReplayer(N=%d, autoIDs=%v) after [%s]", c.N, c.Auto, strings.Join(ops, ", "))
	}
	for k, op := range hist {
		last := k == len(hist)-1
		var before uint64
		if last {
			before = deep.Hash(r)
		}
		if op == 5 || op == 6 {
			// a Replay as a step of the history (not only as a probe): it must not change what later steps see
			w := &probeWriter{}
			sub := sse.Subscription{Client: w, Topics: []string{"a", "b"}}
			if op == 6 {
				w.failAt = 1
				sub.Topics = []string{"a"}
			}
			if len(model) > 0 {
				sub.LastEventID = sse.ID(model[0].id)
			}
			rerr := r.Replay(sub)
			if op == 5 && which != "C18" {
				if v := stepReplayVerdict(w, rerr, model, c, desc); v != "" {
					return 0, true, v
				}
			}
			continue
		}
		valid := op <= 2
		var topics []string
		withID := !c.Auto
		emptyID := false
		if op == 7 {
			// ID("") is a legal, set ID: valid with manual IDs (once per history, so lookups stay unambiguous),
			// "already has an ID" with automatic IDs
			topics = []string{"a"}
			emptyID = true
			if c.Auto {
				valid = false
			} else {
				if usedEmpty {
					return 0, false, ""
				}
				usedEmpty = true
				valid = true
			}
		}
		switch {
		case op == 7:
		case valid:
			topics = putTopics[op]
		case op == 3:
			topics = nil
		case op == 4:
			topics = []string{"a"}
			withID = c.Auto // wrong for the mode
		}
		in := mkMsg(k, withID)
		if emptyID {
			in.ID = sse.ID("")
		}
		inEnc := in.String()
		out, perr := r.Put(in, topics)
		if valid {
			wantID := "e" + strconv.Itoa(k)
			if emptyID {
				wantID = ""
			}
			if c.Auto {
				wantID = strconv.Itoa(next)
				next++
			}
			if last && which != "C18" {
				if perr != nil {
					return 0, true, viol("put-valid-rejected", "%s: valid Put returned error %v", desc(), perr)
				}
				if out == nil || !out.ID.IsSet() || out.ID.String() != wantID {
					got := "<nil message>"
					if out != nil {
						got = fmt.Sprintf("%q (set=%v)", out.ID.String(), out.ID.IsSet())
					}
					return 0, true, viol("put-returned-id", "%s: Put returned a message with ID %s, want %q", desc(), got, wantID)
				}
				if !strings.Contains(out.String(), "data: m"+strconv.Itoa(k)+"\n") {
					return 0, true, viol("put-returned-content", "%s: Put returned a message with different content: %q", desc(), out.String())
				}
				if in.String() != inEnc {
					return 0, true, viol("put-mutates-input", "%s: Put modified the message it was given: %q -> %q", desc(), inEnc, in.String())
				}
			}
			if perr == nil {
				model = append(model, entry{id: wantID, topics: topics})
				issued = append(issued, wantID)
				if len(model) > c.N {
					model = model[1:]
				}
			}
		} else if last && which != "C18" {
			if perr == nil {
				return 0, true, viol("put-invalid-accepted", "%s: invalid Put was accepted", desc())
			}
			if op == 3 && !errors.Is(perr, sse.ErrNoTopic) {
				return 0, true, viol("put-notopic-error", "%s: Put without topics returned %v, want ErrNoTopic", desc(), perr)
			}
			if deep.Hash(r) != before {
				return 0, true, viol("put-rejected-changed-state", "%s: a rejected Put changed the replayer's state", desc())
			}
		}
	}
	stateHash := deep.Hash(r)
	if usedEmpty {
		// the harness admits the empty ID once per history: part of what the future can be, so part of the key
		stateHash ^= 0x5bd1e9955bd1e995
	}

	// C18: nothing but the last N accepted events is reachable
	if which != "C08" {
		reach := deep.Messages(r)
		if len(reach) > c.N {
			return 0, true, viol("c18-more-than-capacity-reachable", "%s: %d messages reachable from the replayer, capacity %d", desc(), len(reach), c.N)
		}
		for _, m := range reach {
			ok := false
			for _, e := range model {
				if e.id == m.ID.String() {
					ok = true
				}
			}
			if !ok {
				return 0, true, viol("c18-evicted-reachable", "%s: evicted message with ID %q is still reachable from the replayer", desc(), m.ID.String())
			}
		}
	}
	if which == "C18" {
		return stateHash ^ hashModel(model, uint64(next)), true, ""
	}

	// C08 probes: first the Replay a history can contain as a step (whatever an earlier one left behind in the
	// replayer meets the same request again), then Replay(x, T, f) for every presentable ID
	{
		*probes++
		w := &probeWriter{}
		sub := sse.Subscription{Client: w, Topics: []string{"a", "b"}}
		if len(model) > 0 {
			sub.LastEventID = sse.ID(model[0].id)
		}
		rerr := r.Replay(sub)
		if v := stepReplayVerdict(w, rerr, model, c, desc); v != "" {
			return 0, true, v
		}
	}
	type probeID struct {
		id    string
		set   bool
		class string
	}
	var ids []probeID
	for _, id := range issued {
		ids = append(ids, probeID{id, true, "issued"})
	}
	nextID := "e" + strconv.Itoa(len(hist))
	if c.Auto {
		nextID = strconv.Itoa(next)
	}
	ids = append(ids, probeID{"zz", true, "never issued"}, probeID{"4000000000", true, "never issued"}, probeID{"18446744073709551616", true, "never issued"}, probeID{"18446744073709551619", true, "never issued"}, probeID{"-1", true, "never issued"}, probeID{"1.5", true, "never issued"}, probeID{nextID, true, "never issued (next to be issued)"}, probeID{"", false, "unset"})
	for _, pid := range ids {
		pos := -1
		for i, e := range model {
			if pid.set && e.id == pid.id {
				pos = i
			}
		}
		evicted := pos < 0 && pid.class == "issued"
		for ti, T := range allProbeTopics {
			var want []string
			if pos >= 0 {
				for _, e := range model[pos+1:] {
					if intersects(T, e.topics) {
						want = append(want, e.id)
					}
				}
			}
			for f := 0; f <= 2; f++ {
				if ti >= len(probeTopics) && f > 0 {
					break // the larger topic sets: without Send failures
				}
				*probes++
				w := &probeWriter{failAt: f}
				sub := sse.Subscription{Client: w, Topics: T}
				if pid.set {
					sub.LastEventID = sse.ID(pid.id)
				}
				rerr := r.Replay(sub)
				what := lazy(func() string {
					if f == 0 {
						return fmt.Sprintf("%s: Replay(LastEventID=%q [%s], topics=%v)", desc(), pid.id, pid.class, T)
					}
					return fmt.Sprintf("%s: Replay(LastEventID=%q [%s], topics=%v, Send #%d fails)", desc(), pid.id, pid.class, T, f)
				})
				if evicted && c.Auto {
					// outside the property (only manual IDs are specified for evicted IDs): universal clauses
					if v := subsequence(w.sends, model, T); v != "" {
						return 0, true, viol("replay-evicted-auto-universal", "%v: %s", what, v)
					}
					continue
				}
				exp := want
				failing := f > 0 && f <= len(want)
				if failing {
					exp = want[:f-1]
				}
				if strings.Join(w.sends, ",") != strings.Join(exp, ",") {
					return 0, true, viol(replaySig(pid.class, pos, len(model), len(w.sends), len(exp), c.Auto, f), "%v sent [%s], want [%s] (buffer holds %s)", what, strings.Join(w.sends, ","), strings.Join(exp, ","), modelString(model))
				}
				if failing {
					if rerr != errProbe {
						return 0, true, viol("replay-failing-send-error-not-returned", "%v returned %v, want the failing Send's error", what, rerr)
					}
					if w.afterErr > 0 {
						return 0, true, viol("replay-call-after-failed-send", "%v: the subscriber was called again after its Send failed (calls %s)", what, w.calls)
					}
					continue
				}
				if rerr != nil {
					return 0, true, viol("replay-unexpected-error", "%v returned %v, want nil", what, rerr)
				}
				if len(exp) > 0 && (len(w.calls) == 0 || w.calls[len(w.calls)-1] != 'F') {
					return 0, true, viol("replay-no-flush", "%v: events were sent but not flushed afterwards (calls %s)", what, w.calls)
				}
			}
		}
	}
	// (Replay is allowed to reorganise private state, e.g. collect: only what it sends is specified.)
	return stateHash ^ hashModel(model, uint64(next)), true, ""
}

// viol encodes a violation as signature NUL message.
func viol(sig, format string, args ...any) string {
	return sig + "\x00" + fmt.Sprintf(format, args...)
}

// SplitViol separates signature and message.
func SplitViol(v string) (sig, msg string) {
	if i := strings.IndexByte(v, 0); i >= 0 {
		return v[:i], v[i+1:]
	}
	return v, v
}

func replaySig(class string, pos, n, got, want int, auto bool, f int) string {
	if class == "issued" {
		switch {
		case pos < 0:
			class = "evicted"
		case pos == n-1:
			class = "newest"
		default:
			class = "buffered"
		}
	}
	rel := "different events"
	if got > want {
		rel = "more than expected"
	} else if got < want {
		rel = "less than expected"
	}
	fail := ""
	if f > 0 {
		fail = ", with a failing Send"
	}
	return fmt.Sprintf("replay from %s ID (autoIDs=%v%s): %s", class, auto, fail, rel)
}

func modelString(model []entry) string {
	var ss []string
	for _, e := range model {
		ss = append(ss, fmt.Sprintf("%s%v", e.id, e.topics))
	}
	return "[" + strings.Join(ss, " ") + "]"
}

// subsequence checks the universal clauses: what was sent is an in-order, duplicate-free selection of
// buffered events matching T.
func subsequence(sent []string, model []entry, T []string) string {
	i := 0
	for _, id := range sent {
		found := false
		for i < len(model) {
			e := model[i]
			i++
			if e.id == id {
				if !intersects(T, e.topics) {
					return "sent " + id + " whose topics do not match"
				}
				found = true
				break
			}
		}
		if !found {
			return "sent " + id + " out of order, twice, or not buffered (sent [" + strings.Join(sent, ",") + "], buffer " + modelString(model) + ")"
		}
	}
	return ""
}

// lazy defers building a description until a violation needs it.
type lazy func() string

func (l lazy) String() string { return l() }
