package rep

import (
	"fmt"
	"strconv"
	"strings"
	"time"

	sse "github.com/tmaxmax/go-sse"

	"verif/sq/deep"
)

// ValidOps is the operation alphabet of C09 / C18 (ValidReplayer).
var ValidOps = []string{"Put{a}", "Put{b}", "Put(no topics)", "GC()", "Advance(1 tick)", "Advance(TTL)", "Put{a}x5", "Put{a}x9", "Replay(oldest unexpired ID, {a,b})", "Put{a}(ID wrong for the mode)"}

// the default alphabet: everything but the last operation, which has configurations of its own
var defaultValidOps = []int{0, 1, 2, 3, 4, 5, 6, 7, 8}

type ValidCfg struct {
	TTL  int // in ticks; one tick is one second
	GC   int // GCInterval in quarter ticks; -1: leave the default (TTL/4)
	Auto bool
	// MaxAdvances / MaxMacros bound the histories.
	MaxAdvances, MaxMacros int
	// Shape: deduplicate states by the shape abstraction (message identity dropped, instants relative to the
	// clock, past instants merged) instead of the concrete state. Every visited state is still checked on the
	// real code; only the decision not to expand a state again rests on the abstraction.
	Shape bool
	// Ops, if set, restricts the alphabet to these operations (indices into ValidOps); MaxHeld bounds the
	// number of events the replayer may be holding (accepted and not yet certainly collected).
	Ops     []int
	MaxHeld int
	// Depth is the search depth (set by the caller; 0: budgets are not folded into the key).
	Depth int
	// PastClock: the injected clock runs in 2001, far behind the machine's own clock (nothing in the replayer may
	// depend on the wall clock once Now is replaced).
	PastClock bool
	// RejectedPuts marks the configurations whose alphabet contains the Put that is rejected because of its ID.
	RejectedPuts bool
	// HugeTTL marks the configurations whose TTL is centuries (searched to a small depth).
	HugeTTL bool
}

const tick = int64(time.Second)

var vbase = time.Date(2030, 1, 1, 0, 0, 0, 0, time.UTC)
var pastBase = time.Date(2001, 1, 1, 0, 0, 0, 0, time.UTC)

// VisitValid rebuilds the state reached by hist and checks, in the final state: every probe Replay against
// the list model (C09), that every unexpired event is still reachable (C09), and that nothing expired is
// reachable right after a collection ran (C18).
func VisitValid(c ValidCfg, hist []uint8, which string, probes *int64) (uint64, bool, string) {
	ttl := time.Duration(c.TTL) * time.Second
	r, err := sse.NewValidReplayer(ttl, c.Auto)
	if err != nil {
		return 0, false, "NewValidReplayer: " + err.Error()
	}
	gcInterval := ttl / 4
	if c.GC >= 0 {
		gcInterval = time.Duration(c.GC) * time.Second / 4
		r.GCInterval = gcInterval
	}
	var now int64 // ns since the base instant
	base := vbase
	if c.PastClock {
		base = pastBase
	}
	r.Now = func() time.Time { return base.Add(time.Duration(now)) }

	var all []entry // every accepted event, in Put order
	next := 0
	attempt := 0
	// t0: the time of the most recent earlier Put or GC call. Collections only happen inside those calls, so
	// whatever the implementation regards as "the last collection" is not later than t0: if now-t0 >= GCInterval
	// at a Put, every reading of the documentation says this Put collects (see DESIGN.md C18).
	t0, t0set := int64(0), false
	adv, macros := 0, 0
	collected := false // a collection ran in the last transition
	desc := func() string {
		return fmt.Sprintf("ValidReplayer(TTL=%ds, GCInterval=%v, autoIDs=%v) after [%s] (now=%.2fs)", c.TTL, gcInterval, c.Auto, strings.Join(opNames(ValidOps, c.mapOps(hist)), ", "), float64(now)/float64(tick))
	}
	put := func(topics []string, last bool) string {
		in := mkMsg(attempt, !c.Auto)
		id := "e" + strconv.Itoa(attempt)
		attempt++
		out, perr := r.Put(in, topics)
		if len(topics) == 0 {
			if perr == nil && last && which != "C18" {
				return viol("put-invalid-accepted", "%s: Put without topics was accepted", desc())
			}
			return ""
		}
		if c.Auto {
			id = strconv.Itoa(next)
			next++
		}
		if perr != nil {
			return viol("put-valid-rejected", "%s: valid Put returned %v", desc(), perr)
		}
		if last && which != "C18" && (out == nil || out.ID.String() != id) {
			return viol("put-returned-id", "%s: Put returned a message without the expected ID %q", desc(), id)
		}
		if t0set && gcInterval > 0 && now-t0 >= int64(gcInterval) {
			collected = true
		}
		t0, t0set = now, true
		all = append(all, entry{id: id, topics: topics, exp: now + int64(ttl)})
		return ""
	}
	// replayOldest is the Replay a history can contain as a step (a client resuming from the oldest event that
	// has not expired, topics {a,b}); what it sends is checked every time, and it is also the first probe in the
	// final state, so that whatever an earlier Replay left behind in the replayer meets the same request again.
	replayOldest := func() string {
		w := &probeWriter{}
		sub := sse.Subscription{Client: w, Topics: []string{"a", "b"}}
		var want []string
		found := false
		for _, e := range all {
			if e.exp > now {
				if !found {
					sub.LastEventID = sse.ID(e.id)
					found = true
				} else {
					want = append(want, e.id)
				}
			}
		}
		rerr := r.Replay(sub)
		if which == "C18" {
			return ""
		}
		if !found {
			want = nil
		}
		if strings.Join(w.sends, ",") != strings.Join(want, ",") || rerr != nil {
			rel := "less than expected"
			if len(w.sends) > len(want) {
				rel = "more than expected"
			}
			return viol(fmt.Sprintf("valid replay from the oldest unexpired ID, as a step of the history (autoIDs=%v): %s", c.Auto, rel), "%s: Replay(LastEventID=%q, topics=[a b]) sent [%s] (error %v), want [%s]", desc(), sub.LastEventID.String(), strings.Join(w.sends, ","), rerr, strings.Join(want, ","))
		}
		return ""
	}
	held := 0 // upper bound of what the replayer may still hold
	for k, op := range hist {
		last := k == len(hist)-1
		collected = false
		var v string
		if c.Ops != nil {
			op = uint8(c.Ops[op])
		}
		before := len(all)
		switch op {
		case 0:
			v = put([]string{"a"}, last)
		case 1:
			v = put([]string{"b"}, last)
		case 2:
			before := deep.Hash(r)
			v = put(nil, last)
			_ = before
		case 3:
			r.GC()
			collected = true
			t0, t0set = now, true
		case 4:
			now += tick
			adv++
		case 5:
			now += int64(ttl)
			adv++
		case 8:
			v = replayOldest()
		case 9:
			// rejected because of its ID (set in automatic mode, missing in manual mode): nothing is stored, and the
			// call must not count as a collection either
			in := mkMsg(attempt, c.Auto)
			attempt++
			if _, perr := r.Put(in, []string{"a"}); perr == nil && last && which != "C18" {
				v = viol("put-invalid-accepted", "%s: a Put whose ID is wrong for the mode was accepted", desc())
			}
			// Whether a rejected Put runs a due collection is the implementation's business - but it may not use
			// up the interval without collecting. If something expired is still held, the interval has not
			// restarted (the next Put must collect); otherwise it may have.
			{
				// (the call may well have collected - the implementation's own notion of "last collection" can be
				// earlier than t0 - so unless there is evidence that it did not, t0 moves)
				held := map[string]bool{}
				for _, m := range deep.Messages(r) {
					held[m.ID.String()] = true
				}
				stale := false
				for _, e := range all {
					if e.exp <= now && held[e.id] {
						stale = true
					}
				}
				if !stale || !t0set {
					t0, t0set = now, true
				}
			}
		case 6, 7:
			macros++
			n := 5
			if op == 7 {
				n = 9
			}
			first := false
			for i := 0; i < n && v == ""; i++ {
				c0 := collected
				v = put([]string{"a"}, last)
				if i == 0 {
					first = collected
				}
				collected = c0 || collected
			}
			collected = first
		}
		if v != "" {
			return 0, true, v
		}
		held += len(all) - before
		if collected {
			held = 0
			for _, e := range all {
				if e.exp > now {
					held++
				}
			}
		}
	}
	if adv > c.MaxAdvances || macros > c.MaxMacros || (c.MaxHeld > 0 && held > c.MaxHeld) {
		return 0, false, ""
	}
	stateHash := deep.Hash(r)
	key := stateHash ^ hashModel(all, uint64(now)) ^ uint64(t0)*0x9e3779b97f4a7c15
	if c.Shape {
		key = deep.ShapeHash(r, deep.Shape{Now: base.Add(time.Duration(now)), Horizon: max(gcInterval, 0)})
		// reference model, same abstraction: per live entry its topics and the time left; plus how long ago
		// the last Put/GC was (saturating at the interval)
		for _, e := range all {
			if e.exp > now-int64(max(gcInterval, 0)) {
				key = key*1099511628211 ^ uint64(e.exp-now)*31 ^ uint64(e.topics[0][0])
			}
		}
		since := int64(-1)
		if t0set {
			since = now - t0
			if gcInterval > 0 && since > int64(gcInterval) {
				since = int64(gcInterval)
			}
			if gcInterval <= 0 {
				since = 0
			}
		}
		key = key*1099511628211 ^ uint64(since)
	}

	// the per-history budgets are part of what the future can be (a state reached with the advances used up is
	// not expanded like the same state reached with some left): what remains of them, capped by the remaining
	// depth, belongs to the key - otherwise which histories get explored would depend on worker timing
	if c.Depth > 0 && !c.Shape {
		left := c.Depth - len(hist)
		key = key*1099511628211 ^ uint64(min(c.MaxAdvances-adv, left))<<8 ^ uint64(min(c.MaxMacros-macros, left))
	}

	// reachability
	reach := map[string]bool{}
	for _, m := range deep.Messages(r) {
		reach[m.ID.String()] = true
	}
	expired := func(e entry) bool { return e.exp <= now }
	if which != "C18" {
		for _, e := range all {
			if !expired(e) && !reach[e.id] {
				return 0, true, viol("c09-unexpired-dropped", "%s: the unexpired event %s (expires at %.2fs) is no longer held by the replayer", desc(), e.id, float64(e.exp)/float64(tick))
			}
		}
	}
	if which != "C09" && collected {
		for _, e := range all {
			if expired(e) && reach[e.id] {
				return 0, true, viol("c18-expired-reachable-after-collection", "%s: a collection just ran, but the expired event %s (expired at %.2fs) is still reachable", desc(), e.id, float64(e.exp)/float64(tick))
			}
		}
	}
	if which != "C09" && gcInterval > 0 && len(hist) > 0 {
		// The documented bound ("messages may be stored for a duration equal to TTL + GCInterval"): a Put made at
		// least GCInterval after a message expired either collects now or comes after a collection that ran
		// after the expiry - under every reading of when the interval starts, as long as it starts at a collection.
		lastOp := hist[len(hist)-1]
		if c.Ops != nil {
			lastOp = uint8(c.Ops[lastOp])
		}
		if lastOp == 0 || lastOp == 1 || lastOp == 6 || lastOp == 7 {
			for _, e := range all {
				if now-e.exp >= int64(gcInterval) && e.exp <= now && reach[e.id] {
					return 0, true, viol("c18-expired-reachable-beyond-ttl-plus-gcinterval", "%s: the last operation was a Put at %.2fs, but the event %s, which expired at %.2fs (more than GCInterval %v earlier), is still reachable: no Put-triggered collection has run since it expired", desc(), float64(now)/float64(tick), e.id, float64(e.exp)/float64(tick), gcInterval)
				}
			}
		}
	}
	if which == "C18" {
		return key, true, ""
	}

	// probes
	*probes++
	if v := replayOldest(); v != "" {
		return 0, true, v
	}
	type probeID struct {
		id    string
		set   bool
		class string
	}
	var ids []probeID
	// all issued IDs would be many after macros: the last 6 plus the first two
	for i, e := range all {
		if i < 1 || i >= len(all)-5 {
			ids = append(ids, probeID{e.id, true, "issued"})
		}
	}
	nextID := "e" + strconv.Itoa(attempt)
	if c.Auto {
		nextID = strconv.Itoa(next)
	}
	ids = append(ids, probeID{"zz", true, "never issued"}, probeID{"4000000000", true, "never issued"}, probeID{"18446744073709551616", true, "never issued"}, probeID{"18446744073709551619", true, "never issued"}, probeID{"-1", true, "never issued"}, probeID{"1.5", true, "never issued"}, probeID{nextID, true, "never issued (next to be issued)"}, probeID{"", false, "unset"})
	for _, pid := range ids {
		pos := -1
		for i, e := range all {
			if pid.set && e.id == pid.id {
				pos = i
			}
		}
		exact := pid.class != "issued" || (pos >= 0 && !expired(all[pos]))
		for ti, T := range allProbeTopics[:len(probeTopics)+2] {
			var want []string
			if pos >= 0 && pid.class == "issued" {
				for _, e := range all[pos+1:] {
					if !expired(e) && intersects(T, e.topics) {
						want = append(want, e.id)
					}
				}
			}
			for f := 0; f <= 2; f++ {
				if ti >= len(probeTopics) && f > 0 {
					break // the larger topic sets: without Send failures
				}
				if exact && f > len(want) && f > 1 {
					continue // no Send to fail: same as f = 1
				}
				*probes++
				w := &probeWriter{failAt: f}
				sub := sse.Subscription{Client: w, Topics: T}
				if pid.set {
					sub.LastEventID = sse.ID(pid.id)
				}
				rerr := r.Replay(sub)
				what := lazy(func() string {
					return fmt.Sprintf("%s: Replay(LastEventID=%q [%s], topics=%v, failing Send #%d)", desc(), pid.id, pid.class, T, f)
				})
				// universal clauses, always
				for _, id := range w.sends {
					for _, e := range all {
						if e.id == id && expired(e) {
							return 0, true, viol("c09-expired-replayed", "%v replayed %s, which expired at %.2fs", what, id, float64(e.exp)/float64(tick))
						}
					}
				}
				if v := subsequence(w.sends, all, T); v != "" {
					return 0, true, viol("c09-replay-order-or-topic", "%v: %s", what, v)
				}
				if !exact {
					continue
				}
				exp := want
				failing := f > 0 && f <= len(want)
				if failing {
					exp = want[:f-1]
				}
				if strings.Join(w.sends, ",") != strings.Join(exp, ",") {
					cls := pid.class
					if cls == "issued" {
						cls = "unexpired"
						if pos == len(all)-1 {
							cls = "newest"
						}
					}
					rel := "less than expected"
					if len(w.sends) > len(exp) {
						rel = "more than expected"
					}
					fl := ""
					if f > 0 {
						fl = ", with a failing Send"
					}
					return 0, true, viol(fmt.Sprintf("valid replay from %s ID (autoIDs=%v%s): %s", cls, c.Auto, fl, rel), "%v sent [%s], want [%s]", what, strings.Join(w.sends, ","), strings.Join(exp, ","))
				}
				if failing {
					if rerr != errProbe {
						return 0, true, viol("replay-failing-send-error-not-returned", "%v returned %v, want the failing Send's error", what, rerr)
					}
					if w.afterErr > 0 {
						return 0, true, viol("replay-call-after-failed-send", "%v: the subscriber was called again after its Send failed (calls %s)", what, w.calls)
					}
					continue
				}
				if rerr != nil {
					return 0, true, viol("replay-unexpected-error", "%v returned %v, want nil", what, rerr)
				}
				if len(exp) > 0 && (len(w.calls) == 0 || w.calls[len(w.calls)-1] != 'F') {
					return 0, true, viol("replay-no-flush", "%v: events were sent but not flushed afterwards (calls %s)", what, w.calls)
				}
			}
		}
	}
	// (Replay is allowed to reorganise private state, e.g. collect: only what it sends is specified.)
	return key, true, ""
}

func (c ValidCfg) mapOps(h []uint8) []uint8 {
	if c.Ops == nil {
		return h
	}
	out := make([]uint8, len(h))
	for i, o := range h {
		out[i] = uint8(c.Ops[o])
	}
	return out
}
