package rep

import (
	"fmt"
	"runtime"
	"strconv"
	"sync"
	"sync/atomic"
	"time"

	sse "github.com/tmaxmax/go-sse"
)

// Finalizer probes (C18): the reflective reachability walk sees what is reachable through slice headers; it cannot
// see a backing array that was resliced to a smaller capacity and still holds pointers in its hidden tail. For a
// structured family of grow / partially expire / shrink / fully expire scripts the probe therefore asks the garbage
// collector itself: every message that the reference model says must be unreachable carries a finalizer, and
// after forced collections all of them must have run. The scripts are enumerated completely (no sampling); the
// only patience involved is waiting for the runtime's finalizer goroutine, bounded generously.

type leakScript struct {
	TTL        int // ticks
	GCInterval int // quarter ticks; -1 default
	Auto       bool
	First      int  // puts at t=0
	Later      int  // puts at t=1
	More       int  // puts right after the first collection
	PutGC      bool // collections are triggered by Put (after GCInterval) instead of explicit GC
}

func (s leakScript) String() string {
	return fmt.Sprintf("ValidReplayer(TTL=%d ticks, GCInterval=%d/4 ticks, autoIDs=%v): %d puts at t=0, %d puts at t=1, collect at t=TTL, %d more puts, collect at t=TTL+1 and t=2*TTL+2 (collections by %s)",
		s.TTL, s.GCInterval, s.Auto, s.First, s.Later, s.More, map[bool]string{true: "a Put after GCInterval", false: "explicit GC()"}[s.PutGC])
}

var finalized sync.Map // id -> *atomic.Bool is overkill; use a counter per probe

// leakStop: a violation was found, the remaining scripts need not wait for their finalizers.
var leakStop atomic.Bool

type probe struct {
	done atomic.Int64
}

// runLeakScript returns "" or a violation (signature NUL message).
func runLeakScript(s leakScript) string {
	ttl := time.Duration(s.TTL) * time.Second
	r, err := sse.NewValidReplayer(ttl, s.Auto)
	if err != nil {
		return viol("leak-probe-setup", "%v", err)
	}
	if s.GCInterval >= 0 {
		r.GCInterval = time.Duration(s.GCInterval) * time.Second / 4
	}
	var now int64
	r.Now = func() time.Time { return vbase.Add(time.Duration(now)) }
	pr := &probe{}
	n := 0
	type rec struct {
		exp int64
		fin *atomic.Bool
	}
	var recs []rec
	put := func() {
		m := &sse.Message{}
		m.AppendData("m" + strconv.Itoa(n))
		if !s.Auto {
			m.ID = sse.ID("e" + strconv.Itoa(n))
		}
		n++
		out, err := r.Put(m, []string{"a"})
		if err != nil {
			return
		}
		f := &atomic.Bool{}
		runtime.SetFinalizer(out, func(*sse.Message) { f.Store(true); pr.done.Add(1) })
		recs = append(recs, rec{exp: now + int64(ttl), fin: f})
	}
	collect := func() {
		if s.PutGC {
			put() // a Put at which a collection is due
		} else {
			r.GC()
		}
	}
	// verify: every message that has expired by now must be unreachable (a collection has just run)
	verify := func(when string) string {
		want := 0
		for _, rc := range recs {
			if rc.exp <= now {
				want++
			}
		}
		deadline := time.Now().Add(10 * time.Second)
		for {
			if leakStop.Load() {
				return ""
			}
			runtime.GC()
			runtime.Gosched()
			got := 0
			for _, rc := range recs {
				if rc.exp <= now && rc.fin.Load() {
					got++
				}
			}
			if got >= want {
				return ""
			}
			if time.Now().After(deadline) {
				return viol("c18-expired-and-collected-messages-are-retained", "%v: after the collection at %s, %d messages have expired but only %d of them became unreachable (finalizers after forced garbage collections)", s, when, want, got)
			}
			time.Sleep(2 * time.Millisecond)
		}
	}
	for i := 0; i < s.First; i++ {
		put()
	}
	now = tick
	for i := 0; i < s.Later; i++ {
		put()
	}
	now = int64(ttl)
	collect()
	if v := verify("t=TTL"); v != "" {
		runtime.KeepAlive(r)
		return v
	}
	for i := 0; i < s.More; i++ {
		put()
	}
	now = int64(ttl) + tick
	collect()
	if v := verify("t=TTL+1"); v != "" {
		runtime.KeepAlive(r)
		return v
	}
	now = 2*int64(ttl) + 2*tick
	collect()
	v := verify("t=2*TTL+2")
	runtime.KeepAlive(r)
	return v
}

func leakScripts(thorough bool) []leakScript {
	var out []leakScript
	firsts := []int{5, 9, 17}
	if thorough {
		firsts = []int{4, 5, 8, 9, 16, 17, 33}
	}
	for _, first := range firsts {
		for later := 0; later <= 6; later++ {
			for _, more := range []int{0, 1, 3} {
				for _, auto := range []bool{false, true} {
					for _, putGC := range []bool{false, true} {
						gi := -1
						if !putGC {
							gi = 0
						}
						out = append(out, leakScript{TTL: 2, GCInterval: gi, Auto: auto, First: first, Later: later, More: more, PutGC: putGC})
					}
				}
			}
		}
	}
	return out
}

// safeLeakScript turns a panic of the code under test into a violation instead of a crash of the check.
func safeLeakScript(s leakScript) (v string) {
	defer func() {
		if r := recover(); r != nil {
			v = viol("panic", "finalizer probe %+v: the code under test panicked: %v", s, r)
		}
	}()
	return runLeakScript(s)
}

// runLeakProbes runs all scripts on a few goroutines.
func runLeakProbes(thorough bool) (n int, firstViolation string) {
	scripts := leakScripts(thorough)
	var mu sync.Mutex
	var wg sync.WaitGroup
	ch := make(chan leakScript)
	for w := 0; w < 4; w++ {
		wg.Add(1)
		go func() {
			defer wg.Done()
			for s := range ch {
				if leakStop.Load() {
					continue
				}
				if v := safeLeakScript(s); v != "" {
					leakStop.Store(true)
					mu.Lock()
					if firstViolation == "" {
						firstViolation = v
					}
					mu.Unlock()
				}
			}
		}()
	}
	for _, s := range scripts {
		ch <- s
	}
	close(ch)
	wg.Wait()
	return len(scripts), firstViolation
}
