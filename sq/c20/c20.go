// Package c20: parser memory is bounded by the configured maximum event size. DESIGN.md section 4, C20.
package c20

import (
	"encoding/json"
	"fmt"
	"io"
	"os"
	"runtime"
	"strings"
	"sync/atomic"

	sse "github.com/tmaxmax/go-sse"

	"verif/ev"
	"verif/sq/c01"
	"verif/sq/ref"
	"verif/sq/sqrun"
)

type Case struct {
	Shape  string `json:"shape"`
	Stream string `json:"-"`
	Gen    GenP   `json:"gen"`
	Limit  int    `json:"limit"` // 0: default (64 KiB)
	Mode   string `json:"mode"`  // "read", "conn-nil" (Buffer(nil, M)), "conn-buf" (Buffer(make([]byte,4), M)), "conn-cap" (Buffer(make([]byte,0,M), 0)), "conn-late" (Buffer(nil, M) called from OnRetry after a failed first attempt)
	Chunk  int    `json:"chunk"` // 0 whole; k: k-byte reads; negative: one cut at -k
	// EOFWithLast: the reader returns io.EOF together with the last bytes (as http bodies with a known length do)
	EOFWithLast bool `json:"eof_with_last,omitempty"`
	// Again (mode "read"): after the pass that is judged, the SAME iterator value is ranged over twice more (once
	// stopping at its first event, once to the end). What those passes yield is not specified; they must not panic.
	Again bool `json:"again,omitempty"`
}

// GenP regenerates the stream (streams are long; the replay file stores the recipe).
type GenP struct {
	Shape string `json:"shape"`
	N     int    `json:"n"`
	K     int    `json:"k"`
}

func gen(g GenP) string {
	pad := func(n int) string {
		if n < 0 {
			n = 0
		}
		return strings.Repeat("y", n)
	}
	small := func(i int) string { return fmt.Sprintf("id: %d\ndata: s\n\n", i%10) }
	// an event of total size n bytes including its terminating blank line: "data: " + pad + "\n\n"
	sized := func(n int) string { return "data: " + pad(n-8) + "\n\n" }
	switch g.Shape {
	case "endless-line":
		return "data: " + pad(g.N)
	case "endless-event":
		var sb strings.Builder
		for sb.Len() < g.N {
			sb.WriteString("data: z\n")
		}
		return sb.String()
	case "blank-lines":
		return strings.Repeat("\n", g.N)
	case "blank-lines-crlf":
		return strings.Repeat("\r\n", g.N/2)
	case "comments":
		var sb strings.Builder
		for sb.Len() < g.N {
			sb.WriteString(": c\n")
		}
		return sb.String()
	case "sized-first":
		return sized(g.N) + small(1) + small(2)
	case "sized-middle":
		return small(1) + small(2) + sized(g.N) + small(3)
	case "sized-last":
		return small(1) + small(2) + sized(g.N)
	case "sized-last-no-blank":
		s := sized(g.N)
		return small(1) + s[:len(s)-1]
	case "blank-then-sized":
		return small(1) + strings.Repeat("\n", g.K) + sized(g.N-g.K) + small(2)
	case "sized-crlf":
		return small(1) + "data: " + pad(g.N-10) + "\r\n\r\n" + small(2)
	case "keepalives":
		// comment-only chunks between small events (what servers send to keep idle connections open)
		var sb strings.Builder
		for i := 0; sb.Len() < g.N; i++ {
			sb.WriteString([]string{": ping\n\n", ":\n\n", ":\r\n\r\n", ": a\n: b\n\n"}[i%4])
			for j := 0; j <= g.K; j++ {
				sb.WriteString(small(i + j))
			}
		}
		return sb.String()
	case "many-small":
		var sb strings.Builder
		for i := 0; sb.Len() < g.N; i++ {
			sb.WriteString(small(i))
		}
		return sb.String()
	}
	return ""
}

// blocks splits the stream the way the scanner must: a block is a maximal run of blank lines followed by
// non-blank lines and the blank line that ends them (or the end of the stream). It returns the size of each
// block and its start offset.
func blocks(s string) (starts, sizes []int) {
	off := 0
	start := 0
	nonblank := false
	for off < len(s) {
		i := strings.IndexAny(s[off:], "\r\n")
		if i < 0 {
			off = len(s)
			nonblank = true
			break
		}
		adv := i + 1
		if s[off+i] == '\r' && off+i+1 < len(s) && s[off+i+1] == '\n' {
			adv++
		}
		blank := i == 0
		off += adv
		if blank && nonblank {
			starts, sizes = append(starts, start), append(sizes, off-start)
			start, nonblank = off, false
		} else if !blank {
			nonblank = true
		}
	}
	if off > start {
		starts, sizes = append(starts, start), append(sizes, off-start)
	}
	return
}

func limitOf(c Case) int {
	if c.Limit == 0 {
		return 65536
	}
	return c.Limit
}

// Judge runs one case; returns signature NUL message or "".
func Judge(c Case) (v string) {
	s := c.Stream
	if s == "" {
		s = gen(c.Gen)
	}
	var cuts []int
	switch {
	case c.Chunk > 0:
		for p := c.Chunk; p < len(s); p += c.Chunk {
			cuts = append(cuts, p)
		}
	case c.Chunk < 0 && -c.Chunk < len(s):
		cuts = []int{-c.Chunk}
	}
	desc := fmt.Sprintf("shape=%s n=%d k=%d (stream of %d bytes) limit=%d mode=%s chunk=%d eofWithLast=%v", c.Gen.Shape, c.Gen.N, c.Gen.K, len(s), c.Limit, c.Mode, c.Chunk, c.EOFWithLast) + map[bool]string{true: " iterator-used-again", false: ""}[c.Again]
	defer func() {
		if r := recover(); r != nil {
			v = "C20: panic\x00" + desc + ": panic: " + fmt.Sprint(r)
		}
	}()
	cc := c01.Case{Stream: s, Cuts: cuts, StopAfter: -1, Conn: c.Mode != "read", MaxSize: c.Limit, EOFWithLast: c.EOFWithLast}
	var got []sse.Event
	var err error
	var pulled int
	if c.Again && c.Mode == "read" {
		got, err, pulled = runAgain(cc)
	} else {
		got, err, pulled = run(cc, c.Mode)
	}
	M := limitOf(c)
	want := ref.Interpret(s, ref.Mode{RetryDispatches: cc.Conn})
	// every yielded event is byte for byte the reference's event at that position
	for i, e := range got {
		if i >= len(want.Events) || e.LastEventID != want.Events[i].LastEventID || e.Type != want.Events[i].Type || e.Data != want.Events[i].Data {
			wl := 0
			if i < len(want.Events) {
				wl = len(want.Events[i].Data)
			}
			return fmt.Sprintf("C20: an event that is not in the stream was delivered (truncated or partially parsed)\x00%s: event %d has id %q type %q and %d data bytes; reference has %d events, event %d with %d data bytes", desc, i, e.LastEventID, e.Type, len(e.Data), len(want.Events), i, wl)
		}
	}
	starts, sizes := blocks(s)
	firstBig, lastBig, firstHuge := -1, -1, -1
	for i, sz := range sizes {
		if sz >= M {
			if firstBig < 0 {
				firstBig = i
			}
			lastBig = i
		}
		// one byte of slack: the final LF of a CRLF CRLF terminator need not be buffered
		if sz > M+1 && firstHuge < 0 {
			firstHuge = i
		}
	}
	tooLong := err != nil && strings.Contains(err.Error(), "token too long")
	if firstBig < 0 {
		if tooLong || len(got) != len(want.Events) {
			return fmt.Sprintf("C20: a stream whose events are all smaller than the limit was not delivered completely\x00%s: %d of %d events delivered, error %v (largest block %d bytes)", desc, len(got), len(want.Events), err, maxOf(sizes))
		}
		return ""
	}
	eventsBefore := func(off int) int {
		n := 0
		for i, end := range want.EventEnd {
			if end <= off {
				n = i + 1
			}
		}
		return n
	}
	// everything before the first block that reaches the limit must have been delivered
	if before := eventsBefore(starts[firstBig]); len(got) < before {
		return fmt.Sprintf("C20: events before the oversized one were lost\x00%s: %d events delivered, %d precede the oversized block at offset %d", desc, len(got), before, starts[firstBig])
	}
	if firstHuge >= 0 {
		// a block larger than the limit cannot be buffered: the stream must end in an error there
		if !tooLong || len(got) > eventsBefore(starts[firstHuge]) {
			return fmt.Sprintf("C20: an event larger than the limit was buffered and delivered\x00%s: block of %d bytes at offset %d, %d events delivered, error %v", desc, sizes[firstHuge], starts[firstHuge], len(got), err)
		}
		if pulled > starts[firstHuge]+M {
			return fmt.Sprintf("C20: more than the limit was read beyond the last completed event before the error\x00%s: %d bytes pulled from the reader, the last completed event ends at or before %d, limit %d", desc, pulled, starts[firstHuge], M)
		}
		return ""
	}
	if tooLong && pulled > starts[lastBig]+M {
		return fmt.Sprintf("C20: more than the limit was read beyond the last completed event before the error\x00%s: %d bytes pulled from the reader, the last completed event ends at or before %d, limit %d", desc, pulled, starts[lastBig], M)
	}
	return ""
}

func maxOf(a []int) int {
	m := 0
	for _, x := range a {
		if x > m {
			m = x
		}
	}
	return m
}

func run(cc c01.Case, mode string) ([]sse.Event, error, int) {
	r := &c01.ChunkReader{Data: cc.Stream, Cuts: cc.Cuts, EOFWithLast: cc.EOFWithLast}
	events, err := c01.RunWith(cc, r, mode == "conn-buf", mode == "conn-cap", mode == "conn-late")
	return events, err, r.Pulled
}

// depthReader records how deep the call stack is whenever the parser asks for more input.
type depthReader struct {
	s        string
	first    int
	max      int
	chunk    int
	maxedOut bool
}

func (d *depthReader) Read(p []byte) (int, error) {
	var pcs [1024]uintptr
	n := runtime.Callers(0, pcs[:])
	if d.first == 0 {
		d.first = n
	}
	if n > d.max {
		d.max = n
	}
	if len(d.s) == 0 {
		return 0, io.EOF
	}
	k := min(d.chunk, len(p), len(d.s))
	copy(p, d.s[:k])
	d.s = d.s[k:]
	return k, nil
}

// judgeDepth: memory must not grow with the NUMBER of chunks either: a long stream of keep-alive comments,
// blank lines and small events is read with the call stack staying as shallow as it was at the first Read.
func judgeDepth(shape string, conn bool) string {
	var sb strings.Builder
	for i := 0; i < 3000; i++ {
		switch shape {
		case "keepalives":
			sb.WriteString(": ping\n\n")
		case "blank":
			sb.WriteString("\n")
		case "unknown-fields":
			sb.WriteString("foo: bar\n\n")
		default:
			sb.WriteString("data: x\n\n")
		}
	}
	d := &depthReader{s: sb.String(), chunk: 64}
	cc := c01.Case{Stream: sb.String(), StopAfter: -1, Conn: conn}
	_, _ = c01.RunWith(cc, d, false)
	if d.max > d.first+40 {
		return fmt.Sprintf("C20: the call stack grows with the length of the stream\x00shape=%s connection=%v: %d frames at the first Read, %d at the deepest (3000 chunks): each chunk costs stack that is only released at the end", shape, conn, d.first, d.max)
	}
	return ""
}

// runAgain is run for sse.Read with the iterator used three times: first stopping after its first event, then
// to the end (this is the pass that is judged together with the first event), then once more after the end.
func runAgain(cc c01.Case) ([]sse.Event, error, int) {
	r := &c01.ChunkReader{Data: cc.Stream, Cuts: cc.Cuts, EOFWithLast: cc.EOFWithLast}
	var cfg *sse.ReadConfig
	if cc.MaxSize > 0 {
		cfg = &sse.ReadConfig{MaxEventSize: cc.MaxSize}
	}
	it := sse.Read(r, cfg)
	var events []sse.Event
	var err error
	it(func(e sse.Event, e2 error) bool {
		if e2 != nil {
			err = e2
			return false
		}
		events = append(events, e)
		return true
	})
	pulled := r.Pulled
	it(func(sse.Event, error) bool { return false })
	it(func(sse.Event, error) bool { return true })
	return events, err, pulled
}

var Check = &sqrun.Check{ID: "C20", QuickBudget: 60, ThoroughBudget: 600,
	Run: func(c *sqrun.Ctx) *sqrun.Outcome {
		var cases, nontriv atomic.Int64
		var list []Case
		limits := []int{8, 16, 33, 64}
		if c.Thorough {
			limits = append(limits, 9, 31, 32, 100, 257, 1000, 4095, 4096, 4097)
		}
		modes := []string{"read", "conn-nil", "conn-buf", "conn-cap", "conn-late"}
		add := func(g GenP, limit int, chunks []int) {
			for _, m := range modes {
				for _, ch := range chunks {
					list = append(list, Case{Gen: g, Limit: limit, Mode: m, Chunk: ch}, Case{Gen: g, Limit: limit, Mode: m, Chunk: ch, EOFWithLast: true})
					if m == "read" && (ch == 0 || ch == 1) {
						list = append(list, Case{Gen: g, Limit: limit, Mode: m, Chunk: ch, Again: true})
					}
				}
			}
		}
		for _, M := range limits {
			chunks := []int{0, 1, 3, -(M - 1), -M, -(M + 1)}
			for d := -4; d <= 4; d++ {
				n := M + d
				for _, sh := range []string{"sized-first", "sized-middle", "sized-last", "sized-last-no-blank", "sized-crlf"} {
					add(GenP{Shape: sh, N: n}, M, chunks)
				}
				for k := 1; k <= 3; k++ {
					add(GenP{Shape: "blank-then-sized", N: n, K: k}, M, chunks)
				}
				for _, sh := range []string{"endless-line", "endless-event", "blank-lines", "blank-lines-crlf", "comments"} {
					add(GenP{Shape: sh, N: n}, M, chunks)
					add(GenP{Shape: sh, N: 5*M + d}, M, chunks)
				}
			}
			add(GenP{Shape: "many-small", N: 20 * M}, M, chunks)
			if M >= 16 {
				for k := 0; k <= 2; k++ {
					for _, n := range []int{1, 30, 20 * M} {
						add(GenP{Shape: "keepalives", N: n, K: k}, M, append([]int{2, 5, 7, -9, -10, -11, -20, -21}, chunks...))
					}
				}
			}
		}
		// default limit and the scanner's 4 KiB start buffer
		span := 3
		if !c.Thorough {
			span = 2
		}
		for _, base := range []int{4096, 65536} {
			for d := -span; d <= span; d++ {
				for _, sh := range []string{"sized-first", "sized-middle", "sized-last", "sized-crlf"} {
					add(GenP{Shape: sh, N: base + d}, 0, []int{0, 4096, 4097})
				}
				add(GenP{Shape: "blank-then-sized", N: base + d, K: 2}, 0, []int{0, 4096})
			}
		}
		for _, sh := range []string{"endless-line", "endless-event", "blank-lines", "comments"} {
			add(GenP{Shape: sh, N: 200000}, 0, []int{0, 4096, 1000})
		}
		add(GenP{Shape: "many-small", N: 200000}, 0, []int{0, 4096, 1000})
		// an enlarged limit
		for d := -2; d <= 2; d++ {
			add(GenP{Shape: "sized-middle", N: 100000 + d}, 100000, []int{0, 4097})
			add(GenP{Shape: "sized-middle", N: 65536 + d}, 100000, []int{0, 4097})
		}
		sigSeen := map[string]bool{}
		for _, cs := range list {
			cases.Add(1)
			nontriv.Add(1)
			if v := Judge(cs); v != "" {
				i := strings.IndexByte(v, 0)
				sig, msg := v[:i], v[i+1:]
				if !sigSeen[sig] {
					sigSeen[sig] = true
					cs := cs
					c.Rep.Add(sig, msg, func() string {
						return ev.WriteReplay("C20", sig, map[string]any{"property": "C20", "case": cs, "violation": msg, "signature": sig})
					})
				}
			}
		}
		for _, sh := range []string{"keepalives", "blank", "unknown-fields", "events"} {
			for _, conn := range []bool{false, true} {
				cases.Add(1)
				nontriv.Add(1)
				if v := judgeDepth(sh, conn); v != "" {
					i := strings.IndexByte(v, 0)
					c.Rep.Add(v[:i], v[i+1:], func() string {
						return ev.WriteReplay("C20", v[:i], map[string]any{"property": "C20", "violation": v[i+1:], "signature": v[:i], "how_to_replay": "./check C20 (the stack-depth probes run on every invocation)"})
					})
				}
			}
		}
		cov := ev.Coverage{"evaluations": cases.Load(), "distinct_nontrivial": nontriv.Load(), "exhaustive": true,
			"samples": []any{list[0], list[len(list)/2], list[len(list)-1]},
			"rule":    fmt.Sprintf("limits %v via ReadConfig.MaxEventSize, Connection.Buffer(nil, M), Connection.Buffer(make([]byte,4), M) Connection.Buffer(make([]byte,0,M), 0) and Connection.Buffer(nil, M) called from OnRetry after a failed first attempt, plus the default 64 KiB and an enlarged 100000; stream shapes (endless line, endless event, only blank lines (LF and CRLF), only comments, an event of size n first / in the middle / last / last without blank line / with CRLF, b blank lines before it, comment-only keep-alive chunks (LF and CRLF, one and two lines) between small events, many small events) with n swept over [M-4, M+4] (and around 4096 / 65536 for the default); chunkings whole, 1-byte, 3-byte, one cut at M-1 / M / M+1 (4096 / 4097 / 1000 for the long ones); each with io.EOF returned separately and together with the last bytes; for sse.Read (whole and byte-wise) also with the same iterator value ranged over twice more afterwards, which must not panic; all through a counting reader; plus 3000-chunk streams of keep-alives / blank lines / unknown fields / small events during which the call stack must stay as shallow as at the first Read. Every case is distinct by construction and non-trivial (each stream contains events or exceeds the limit).", limits)}
		return &sqrun.Outcome{Level: "exploration", Coverage: cov, Assumptions: []string{
			"an event whose size (including the blank lines before it) equals or exceeds the limit may be reported as too long or delivered intact; it may never be delivered truncated",
			"'the last completed event' is the end of the last block (blank lines + lines + terminating blank line) before the oversized one",
		}}
	},
	Replay: func(c *sqrun.Ctx, path string) int {
		b, err := os.ReadFile(path)
		if err != nil {
			fmt.Fprintln(os.Stderr, err)
			return 2
		}
		var rf struct{ Case Case }
		if err := json.Unmarshal(b, &rf); err != nil {
			fmt.Fprintln(os.Stderr, err)
			return 2
		}
		if v := Judge(rf.Case); v != "" {
			i := strings.IndexByte(v, 0)
			fmt.Printf("VIOLATION property=C20 replay=%s\n  %s\n", path, v[i+1:])
			return 1
		}
		fmt.Println("no violation for this case")
		return 0
	},
}
