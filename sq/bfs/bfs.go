// Package bfs is the explicit-state search of the sequential checks: a state is the history that reaches
// it, successors are produced by re-running the history on a fresh real object plus one operation, and
// states are deduplicated by a key the check computes from the concrete state (DESIGN.md section 2.2).
package bfs

import (
	"fmt"
	"runtime"
	"runtime/debug"
	"strings"
	"sync"
	"sync/atomic"
	"time"
)

type Config struct {
	// NOps is the size of the operation alphabet.
	NOps int
	// MaxDepth bounds the length of histories.
	MaxDepth int
	// Visit rebuilds the state reached by hist on fresh real objects, checks every invariant and probe in
	// that state, and returns the state key. A non-empty violation stops the search. If allowed is false
	// the history is not part of the space (e.g. it exceeds a per-history budget) and is skipped.
	Visit func(hist []uint8) (key uint64, allowed bool, violation string)
	// Deadline: stop when reached (zero: none).
	Deadline  time.Time
	MaxStates int
}

type Result struct {
	States      int64 // distinct keys
	Transitions int64 // histories visited (state, operation) pairs
	Depth       int   // deepest completed level
	Exhaustive  bool  // the frontier emptied, or MaxDepth was completed
	Violation   string
	History     []uint8
	Samples     [][]uint8
}

// Run explores breadth-first, parallel within a level.
func Run(c Config) Result {
	var res Result
	seen := make([]map[uint64]struct{}, 64)
	var locks [64]sync.Mutex
	for i := range seen {
		seen[i] = map[uint64]struct{}{}
	}
	add := func(k uint64) bool {
		s := k >> 58
		locks[s].Lock()
		_, dup := seen[s][k]
		if !dup {
			seen[s][k] = struct{}{}
		}
		locks[s].Unlock()
		return !dup
	}
	visit := c.Visit
	c.Visit = func(h []uint8) (k uint64, ok bool, v string) {
		defer func() {
			if r := recover(); r != nil {
				k, ok = 0, true
				v = fmt.Sprintf("panic\x00the code under test panicked after history %v: %v\n%s", h, r, trimStack(string(debug.Stack())))
			}
		}()
		return visit(h)
	}
	k0, _, v0 := c.Visit(nil)
	if v0 != "" {
		res.Violation = v0
		return res
	}
	add(k0)
	res.States = 1
	frontier := [][]uint8{nil}
	res.Exhaustive = true
	workers := runtime.NumCPU()
	for depth := 1; depth <= c.MaxDepth && len(frontier) > 0; depth++ {
		var next [][]uint8
		var mu sync.Mutex
		var stop atomic.Bool
		var trans, states atomic.Int64
		var wg sync.WaitGroup
		ch := make(chan []uint8, 1024)
		for w := 0; w < workers; w++ {
			wg.Add(1)
			go func() {
				defer wg.Done()
				var local [][]uint8
				for h := range ch {
					if stop.Load() {
						continue
					}
					for op := 0; op < c.NOps; op++ {
						nh := make([]uint8, len(h)+1)
						copy(nh, h)
						nh[len(h)] = uint8(op)
						key, ok, viol := c.Visit(nh)
						if !ok {
							continue
						}
						trans.Add(1)
						if viol != "" {
							mu.Lock()
							if res.Violation == "" {
								res.Violation, res.History = viol, nh
							}
							mu.Unlock()
							stop.Store(true)
							break
						}
						if add(key) {
							states.Add(1)
							local = append(local, nh)
						}
					}
				}
				mu.Lock()
				next = append(next, local...)
				mu.Unlock()
			}()
		}
		timedOut := false
		for i, h := range frontier {
			if i%256 == 0 && !c.Deadline.IsZero() && time.Now().After(c.Deadline) {
				timedOut = true
				break
			}
			if stop.Load() {
				break
			}
			ch <- h
		}
		close(ch)
		wg.Wait()
		res.Transitions += trans.Load()
		res.States += states.Load()
		if res.Violation != "" {
			res.Exhaustive = false
			return res
		}
		if timedOut || (c.MaxStates > 0 && res.States > int64(c.MaxStates)) {
			res.Exhaustive = false
			return res
		}
		res.Depth = depth
		if len(next) > 0 && len(res.Samples) < 3 {
			res.Samples = append(res.Samples, next[len(next)/2])
		}
		frontier = next
	}
	return res
}

func trimStack(s string) string {
	var out []string
	for _, l := range strings.Split(s, "\n") {
		if strings.Contains(l, "go-sse") && !strings.Contains(l, "/verif/") {
			if i := strings.Index(l, " +0x"); i >= 0 {
				l = l[:i]
			}
			if i := strings.Index(l, "(0x"); i >= 0 {
				l = l[:i]
			}
			out = append(out, strings.TrimSpace(l))
		}
		if len(out) >= 8 {
			break
		}
	}
	return strings.Join(out, "\n")
}
