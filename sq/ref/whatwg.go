// Package ref holds the reference models (oracles). whatwg.go is a direct transcription of the WHATWG
// "parse an event stream" / "interpret an event stream" steps over bytes, with go-sse's three documented
// adaptations as explicit switches. It consumes the whole byte string at once, so it cannot depend on how
// the stream is cut into reads. UTF-8 decoding is not modelled: CR, LF, colon and space never occur inside
// a multi-byte sequence, so decoding commutes with field splitting, and values are compared as raw bytes.
package ref

import "strings"

type Event struct {
	LastEventID string
	Type        string
	Data        string
}

type Mode struct {
	// Strict: the unmodified algorithm - an event is dispatched only when the data buffer is non-empty, and a
	// pending event is dropped at the end of the stream. (Type is still left empty instead of "message".)
	Strict bool
	// RetryDispatches: a valid retry field marks the event as pending (go-sse Connections).
	RetryDispatches bool
	// InitialLastEventID: the last event ID buffer at the start (a reconnecting Connection).
	InitialLastEventID string
	// NoFlushAtEnd: the stream did not end cleanly (read error): a pending event is not dispatched at the end.
	NoFlushAtEnd bool
}

type Result struct {
	Events []Event
	// UnterminatedTail: the stream ended inside a line (the last line has no terminator).
	UnterminatedTail bool
	// Retries: the valid retry values in stream order, with the number of events dispatched before each.
	Retries []Retry
	// EventEnd[i] is the byte offset just after the blank line that dispatched event i (len(stream) for an
	// event flushed at the clean end of the stream).
	EventEnd []int
	// LastEventID buffer at the end.
	LastEventID string
}

type Retry struct {
	Value        int64
	EventsBefore int
}

func isDigits(s string) bool {
	if s == "" {
		return false
	}
	for i := 0; i < len(s); i++ {
		if s[i] < '0' || s[i] > '9' {
			return false
		}
	}
	return true
}

// Interpret runs the algorithm on the whole stream.
func Interpret(stream string, m Mode) Result {
	var res Result
	s := stream
	off := 0
	if strings.HasPrefix(s, "\xEF\xBB\xBF") {
		s = s[3:]
		off = 3
	}
	lastID := m.InitialLastEventID
	var data strings.Builder
	typ := ""
	pending := false // go-sse: "dirty"
	dispatch := func(end int) {
		if m.Strict {
			if data.Len() == 0 {
				typ = ""
				return
			}
		} else if !pending {
			return
		}
		d := data.String()
		if strings.HasSuffix(d, "\n") {
			d = d[:len(d)-1]
		}
		res.Events = append(res.Events, Event{LastEventID: lastID, Type: typ, Data: d})
		res.EventEnd = append(res.EventEnd, end)
		data.Reset()
		typ = ""
		pending = false
	}
	for len(s) > 0 {
		// one line
		i := strings.IndexAny(s, "\r\n")
		if i < 0 {
			res.UnterminatedTail = true
			break
		}
		line := s[:i]
		adv := i + 1
		if s[i] == '\r' && i+1 < len(s) && s[i+1] == '\n' {
			adv++
		}
		s = s[adv:]
		off += adv
		if line == "" {
			dispatch(off)
			continue
		}
		if line[0] == ':' {
			continue
		}
		name, value := line, ""
		if c := strings.IndexByte(line, ':'); c >= 0 {
			name, value = line[:c], line[c+1:]
			if strings.HasPrefix(value, " ") {
				value = value[1:]
			}
		}
		switch name {
		case "event":
			typ = value
			pending = true
		case "data":
			data.WriteString(value)
			data.WriteByte('\n')
			pending = true
		case "id":
			if strings.IndexByte(value, 0) < 0 {
				lastID = value
				pending = true
			}
		case "retry":
			if isDigits(value) && len(value) <= 18 {
				var n int64
				for i := 0; i < len(value); i++ {
					n = n*10 + int64(value[i]-'0')
				}
				res.Retries = append(res.Retries, Retry{Value: n, EventsBefore: len(res.Events)})
				if m.RetryDispatches {
					pending = true
				}
			}
		}
	}
	res.LastEventID = lastID
	if !m.Strict && !res.UnterminatedTail && !m.NoFlushAtEnd {
		// adaptation 3: a pending event whose last line was terminated is dispatched at a clean end of stream
		dispatch(len(stream))
	}
	// only the ID of a dispatched event counts for resuming (go-sse stores it at dispatch)
	res.LastEventID = m.InitialLastEventID
	if n := len(res.Events); n > 0 {
		res.LastEventID = res.Events[n-1].LastEventID
	}
	return res
}
