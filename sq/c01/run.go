package c01

import (
	"encoding/json"
	"fmt"
	"os"
	"runtime/debug"
	"strings"
	"time"

	"verif/ev"
	"verif/sq/sqrun"
)

func timeUp(c *sqrun.Ctx) bool { return time.Now().After(c.Deadline) }

func pow(b, e int) int {
	r := 1
	for ; e > 0; e-- {
		r *= b
	}
	return r
}

// tokenString returns the i-th string of exactly l tokens.
func tokenString(i, l int) string {
	var sb strings.Builder
	for k := 0; k < l; k++ {
		sb.WriteString(Tokens[i%len(Tokens)])
		i /= len(Tokens)
	}
	return sb.String()
}

func lineString(i, l int, lastOpen bool) string {
	var sb strings.Builder
	for k := 0; k < l; k++ {
		sb.WriteString(Lines[i%len(Lines)])
		i /= len(Lines)
		t := Terms[i%len(Terms)]
		i /= len(Terms)
		if !(lastOpen && k == l-1) {
			sb.WriteString(t)
		}
	}
	return sb.String()
}

// sizeFamily builds long streams: events around the scanner's buffer sizes, and many-event streams in which
// IDs are inherited (what must survive the scanner reusing its buffer).
func sizeFamily(thorough bool) []string {
	var out []string
	pad := func(n int) string { return strings.Repeat("y", n) }
	for _, base := range []int{4096, 65536} {
		for d := -3; d <= 3; d++ {
			n := base + d
			// one event of total size n (incl. "data: " and the two terminators), then a small one
			body := n - len("data: ") - 2
			if body < 0 {
				continue
			}
			out = append(out, "id: 1\n\ndata: "+pad(body)+"\n\nevent: t\ndata: z\n\n")
			if thorough || d == 0 {
				out = append(out, "data: "+pad(body)+"\r\n\r\ndata: z\r\n\r\n")
			}
		}
	}
	var sb strings.Builder
	for i := 0; i < 60; i++ {
		if i%3 == 0 {
			fmt.Fprintf(&sb, "id: id%d\nevent: t%d\ndata: %s\n\n", i, i, pad(100+i))
		} else {
			fmt.Fprintf(&sb, "data: %s%d\n\n", pad(90), i)
		}
	}
	out = append(out, sb.String())
	return out
}

var Check = &sqrun.Check{ID: "C01", QuickBudget: 90, ThoroughBudget: 1500,
	Run: func(c *sqrun.Ctx) *sqrun.Outcome {
		k := &collector{c: c, connAll: c.Thorough}
		debug.SetGCPercent(1000)
		L, allBelow, pairBelow, nl := 4, 9, 14, 3
		if c.Thorough {
			L, allBelow, pairBelow, nl = 5, 10, 18, 4
		}
		streams := 0
		t0 := time.Now()
		phase := func(name string) {
			if os.Getenv("VERIF_DEBUG") != "" {
				fmt.Fprintf(os.Stderr, "C01 phase %s done at %.1fs, cases %d\n", name, time.Since(t0).Seconds(), k.st.cases.Load())
			}
		}
		// (d) one Connection across a reconnection: every first stream of <= 3 lines over an ID-centred alphabet, ending
		// cleanly / in mid-line / with a read error, followed by every second stream of a small set
		pl := []string{"id:1", "id:2", "data:x", "", "id:", "event:t"}
		seconds := []string{"data:y\n\n", "id:9\n\n", "data:y\nid:8\n\n", ":c\n\n", "event:u\n\ndata:z\n\n", ""}
		for l := 1; l <= 3; l++ {
			n := pow(len(pl), l)
			for i := 0; i < n; i++ {
				var sb strings.Builder
				x := i
				for j := 0; j < l; j++ {
					sb.WriteString(pl[x%len(pl)])
					x /= len(pl)
					if j < l-1 {
						sb.WriteString("\n")
					}
				}
				for _, tail := range []string{"", "\n", "\n\n"} {
					for _, ee := range []string{"", "plain", "wraps-eof"} {
						for _, s2 := range seconds {
							k.judgePair(PairCase{Stream: sb.String() + tail, EndErr: ee, Second: s2})
						}
					}
				}
			}
		}
		streams += 3 * (6 + 36 + 216)
		phase("pairs")
		// (a) token strings, shortlex
		for l := 0; l <= L && !k.stop.Load(); l++ {
			n := pow(len(Tokens), l)
			streams += n
			parallel(k, n, func(i int) string { return tokenString(i, l) }, allBelow, pairBelow)
		}
		phase("tokens")
		// (b) line-level strings
		for l := 1; l <= nl && !k.stop.Load(); l++ {
			n := pow(len(Lines)*len(Terms), l)
			streams += 2 * n
			lb, pb := allBelow, pairBelow
			if l >= 3 {
				lb, pb = 0, 0
				if c.Thorough && l == 3 {
					pb = 24
				}
			}
			parallel(k, n, func(i int) string { return lineString(i, l, false) }, lb, pb)
			parallel(k, n, func(i int) string { return lineString(i, l, true) }, lb, pb)
		}
		// (b2) multi-event streams: sequences of 3-4 event templates (surplus blank lines, CRLF, comments, inherited
		// IDs), every single cut and every pair of cuts - what a splitter that keeps state between reads must survive
		tmpl := []string{"id:1\n\n", "\nid:2\ndata:x\n\n", "data:y\r\n\r\n", ":c\n\n", "\r\nevent:t\ndata:z\n\n", "data\n\n", "id:3\x00\ndata:w\n\n", "id:4\x01\x7f\ndata:v\n\n", "event:  u \t\ndata:q\n\n"}
		ne := 3
		if c.Thorough {
			ne = 4
		}
		nt := pow(len(tmpl), ne)
		streams += nt
		parallel(k, nt, func(i int) string {
			var sb strings.Builder
			for j := 0; j < ne; j++ {
				sb.WriteString(tmpl[i%len(tmpl)])
				i /= len(tmpl)
			}
			return sb.String()
		}, 0, 64)
		phase("lines")
		// (c) sizes around the scanner's buffers
		fam := sizeFamily(c.Thorough)
		streams += len(fam)
		for _, s := range fam {
			for _, chunk := range []int{0, 1000, 4096, 4097} {
				var cuts []int
				for p := chunk; chunk > 0 && p < len(s); p += chunk {
					cuts = append(cuts, p)
				}
				for _, conn := range []bool{false, true} {
					cs := Case{Stream: s, Cuts: cuts, StopAfter: -1, Conn: conn, MaxSize: 1 << 20}
					k.judge(cs, true)
				}
			}
		}
		phase("sizes")
		exhaustive := !k.timedOut.Load() && !k.stop.Load()
		samples := []any{
			Case{Stream: tokenString(12345, 4), Cuts: []int{1, 3}, StopAfter: -1},
			Case{Stream: lineString(4321, 3, true), Cuts: nil, StopAfter: -1, Conn: true},
		}
		cov := ev.Coverage{
			"evaluations": k.st.cases.Load(), "distinct_nontrivial": k.st.nontrivial.Load(), "exhaustive": exhaustive,
			"streams": streams, "samples": samples,
			"rule": fmt.Sprintf("(a) every string of <= %d tokens over %q, (b) every sequence of <= %d lines over %q x terminators {LF, CR, CRLF}, last line terminated or not, (b2) every sequence of 3 (thorough 4) of 9 event templates (surplus blank lines, CRLF events, comment-only blocks, inherited IDs, an ID with NUL next to data, an ID with other control characters, a type with surrounding blanks) under every single cut and every pair of cuts, (d) one Connection across a reconnection: every first stream of <= 3 lines over an ID-centred alphabet ending cleanly / in mid-line / with a read error, followed by each of 6 second streams (the ID of an event that was never dispatched must not survive), (c) a size family around 4096 / 65536 bytes and a 60-event stream with inherited IDs; each stream x both entry points (sse.Read, Connection.Connect over a scripted RoundTripper; in the quick tier the Connection gets the whole / byte-at-a-time / single-cut segmentations only) x segmentations (all 2^(n-1) cut sets for n <= %d bytes, else whole / byte-at-a-time / every single cut / every pair of cuts for n <= %d; EOF with the last chunk or separately; for the whole / byte-at-a-time / last-byte-alone segmentations also ending in a read error of its own kind or one that wraps io.EOF, where nothing pending may be dispatched and the error must be reported as itself) x every early-stop position. A case is a distinct (stream, segmentation, entry, stop); non-trivial = the reference yields at least one event or an unexpected end.", L, Tokens, nl, Lines, allBelow, pairBelow),
		}
		return &sqrun.Outcome{Level: "exploration", Coverage: cov, Assumptions: []string{
			"reference = transcription of the WHATWG parse/interpret steps over bytes with the three adaptations; values compared as raw bytes (no U+FFFD replacement demanded)",
			"whether a cleanly ended Connection stream surfaces as io.EOF or nil is C11's question",
		}}
	},
	Replay: func(c *sqrun.Ctx, path string) int {
		b, err := os.ReadFile(path)
		if err != nil {
			fmt.Fprintln(os.Stderr, err)
			return 2
		}
		var rf struct {
			Case Case
			Pair *PairCase `json:"pair_case"`
		}
		if err := json.Unmarshal(b, &rf); err != nil {
			fmt.Fprintln(os.Stderr, err)
			return 2
		}
		if rf.Pair != nil {
			if v := JudgePair(*rf.Pair); v != "" {
				i := strings.IndexByte(v, 0)
				fmt.Printf("VIOLATION property=C01 replay=%s\n  %s\n", path, v[i+1:])
				return 1
			}
			fmt.Println("no violation for this case")
			return 0
		}
		if v := Judge(rf.Case); v != "" {
			i := strings.IndexByte(v, 0)
			fmt.Printf("VIOLATION property=C01 replay=%s\n  %s\n", path, v[i+1:])
			return 1
		}
		fmt.Println("no violation for this case")
		return 0
	},
}
