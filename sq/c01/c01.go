// Package c01: event-stream interpretation conforms to the WHATWG algorithm (with go-sse's three documented
// adaptations), for every byte string over a token alphabet, every segmentation into reads, both entry
// points and every early-stop position. DESIGN.md section 4, C01.
package c01

import (
	"errors"
	"fmt"
	"io"
	"net/http"
	"runtime"
	"strings"
	"sync"
	"sync/atomic"
	"time"

	sse "github.com/tmaxmax/go-sse"

	"verif/ev"
	"verif/sq/ref"
	"verif/sq/sqrun"
)

// ChunkReader delivers data cut at the given offsets; EOF comes with the last chunk or separately.
type ChunkReader struct {
	Data        string
	Cuts        []int // ascending, 0 < cut < len(Data)
	EOFWithLast bool
	// EndErr, if set, is what the reader returns instead of io.EOF (with the last bytes if EOFWithLast)
	EndErr  error
	pos, ci int
	Pulled  int
}

// the two ways a stream can end badly: a read error of its own kind, and one that wraps io.EOF (what a
// transport reports when the peer closed the connection in the middle of the body)
var (
	ErrPlainRead = errors.New("scripted read error")
	ErrWrapsEOF  = fmt.Errorf("connection closed by peer: %w", io.EOF)
)

func endErrOf(kind string) error {
	switch kind {
	case "plain":
		return ErrPlainRead
	case "wraps-eof":
		return ErrWrapsEOF
	}
	return nil
}

func (r *ChunkReader) end() error {
	if r.EndErr != nil {
		return r.EndErr
	}
	return io.EOF
}

func (r *ChunkReader) Read(p []byte) (int, error) {
	if r.pos >= len(r.Data) {
		return 0, r.end()
	}
	end := len(r.Data)
	if r.ci < len(r.Cuts) {
		end = r.Cuts[r.ci]
	}
	n := copy(p, r.Data[r.pos:end])
	r.pos += n
	r.Pulled += n
	if r.pos == end && r.ci < len(r.Cuts) {
		r.ci++
	}
	if r.pos >= len(r.Data) && r.EOFWithLast {
		return n, r.end()
	}
	return n, nil
}

type Case struct {
	Stream      string `json:"stream"`
	Cuts        []int  `json:"cuts"`
	EOFWithLast bool   `json:"eof_with_last_chunk"`
	StopAfter   int    `json:"stop_after"` // Read: yield returns false after this many events (-1: never)
	Conn        bool   `json:"connection"`
	MaxSize     int    `json:"max_event_size,omitempty"`
	// EndErr: "" the stream ends cleanly; "plain" / "wraps-eof": the reader fails after the last byte with an
	// error of its own / with an error that wraps io.EOF. A pending event is then NOT dispatched and the
	// error is reported as itself.
	EndErr string `json:"end_error,omitempty"`
}

func (c Case) String() string {
	return fmt.Sprintf("stream=%q cuts=%v eofWithLast=%v stopAfter=%d connection=%v endError=%q", c.Stream, c.Cuts, c.EOFWithLast, c.StopAfter, c.Conn, c.EndErr)
}

type rt struct{ body io.Reader }

func (t rt) RoundTrip(req *http.Request) (*http.Response, error) {
	return &http.Response{StatusCode: 200, Status: "200 OK", Proto: "HTTP/1.1", ProtoMajor: 1, ProtoMinor: 1,
		Header: http.Header{"Content-Type": {"text/event-stream"}}, Body: io.NopCloser(t.body), Request: req}, nil
}

var baseReq, _ = http.NewRequest(http.MethodGet, "http://verif.invalid/events", http.NoBody)

// RunWith executes the case with the given reader (C20 counts what is pulled from it). ownBuf: give the
// Connection a small buffer of its own instead of nil.
// rtFailFirst fails the first attempt in the transport and serves the body on the second.
type rtFailFirst struct {
	body io.Reader
	n    int
}

func (t *rtFailFirst) RoundTrip(req *http.Request) (*http.Response, error) {
	t.n++
	if t.n != 2 {
		// (a connection that was established resets the retry count, so everything after the second attempt
		// fails as well: Connect then gives up)
		return nil, errors.New("scripted transport failure")
	}
	return rt{t.body}.RoundTrip(req)
}

// RunWith: capOnly[0]: the limit is given by the capacity of the buffer alone; capOnly[1]: the Connection is
// configured late - Buffer(nil, M) is called from OnRetry after a first, failed attempt.
func RunWith(c Case, r io.Reader, ownBuf bool, capOnly ...bool) ([]sse.Event, error) {
	var events []sse.Event
	if c.Conn && len(capOnly) > 1 && capOnly[1] {
		var conn *sse.Connection
		tr := &rtFailFirst{body: r}
		var streamErr error // how the attempt that served the stream ended (Connect itself returns a later failure)
		cl := sse.Client{HTTPClient: &http.Client{Transport: tr}, ResponseValidator: sse.NoopValidator,
			Backoff: sse.Backoff{MaxRetries: 1, InitialInterval: 1, Jitter: -1},
			OnRetry: func(err error, _ time.Duration) {
				if tr.n == 2 {
					streamErr = err
				}
				if c.MaxSize > 0 {
					conn.Buffer(nil, c.MaxSize)
				}
			}}
		conn = cl.NewConnection(baseReq)
		conn.SubscribeToAll(func(e sse.Event) { events = append(events, e) })
		_ = conn.Connect()
		return events, streamErr
	}
	if c.Conn {
		cl := sse.Client{HTTPClient: &http.Client{Transport: rt{r}}, ResponseValidator: sse.NoopValidator, Backoff: sse.Backoff{MaxRetries: -1}}
		conn := cl.NewConnection(baseReq)
		if c.MaxSize > 0 {
			switch {
			case len(capOnly) > 0 && capOnly[0]:
				// bufio.Scanner: the limit is the larger of max and cap(buf) - here the capacity alone says it
				conn.Buffer(make([]byte, 0, c.MaxSize), 0)
			case ownBuf:
				conn.Buffer(make([]byte, 4), c.MaxSize)
			default:
				conn.Buffer(nil, c.MaxSize)
			}
		}
		conn.SubscribeToAll(func(e sse.Event) { events = append(events, e) })
		return events, conn.Connect()
	}
	var cfg *sse.ReadConfig
	if c.MaxSize > 0 {
		cfg = &sse.ReadConfig{MaxEventSize: c.MaxSize}
	}
	var err error
	sse.Read(r, cfg)(func(e sse.Event, e2 error) bool {
		if e2 != nil {
			err = e2
			return false
		}
		events = append(events, e)
		return true
	})
	return events, err
}

// RunImpl executes the case on the real code.
func RunImpl(c Case) (events []sse.Event, err error, afterErr bool) {
	r := &ChunkReader{Data: c.Stream, Cuts: c.Cuts, EOFWithLast: c.EOFWithLast, EndErr: endErrOf(c.EndErr)}
	if c.Conn {
		cl := sse.Client{HTTPClient: &http.Client{Transport: rt{r}}, ResponseValidator: sse.NoopValidator, Backoff: sse.Backoff{MaxRetries: -1}}
		conn := cl.NewConnection(baseReq)
		if c.MaxSize > 0 {
			conn.Buffer(nil, c.MaxSize)
		}
		conn.SubscribeToAll(func(e sse.Event) { events = append(events, e) })
		err = conn.Connect()
		return events, err, false
	}
	var cfg *sse.ReadConfig
	if c.MaxSize > 0 {
		cfg = &sse.ReadConfig{MaxEventSize: c.MaxSize}
	}
	n := 0
	sse.Read(r, cfg)(func(e sse.Event, e2 error) bool {
		if err != nil {
			afterErr = true
		}
		if e2 != nil {
			err = e2
			if e != (sse.Event{}) {
				afterErr = true // an event together with an error
			}
			return true // keep going: nothing may follow an error
		}
		events = append(events, e)
		n++
		return c.StopAfter < 0 || n < c.StopAfter
	})
	return events, err, afterErr
}

// PairCase: one Connection that reads Stream, loses the connection (cleanly, or with a read error), reconnects
// once and reads Second. The second stream is interpreted with the last event ID the first one DISPATCHED.
type PairCase struct {
	Stream string `json:"stream"`
	EndErr string `json:"end_error"`
	Second string `json:"second_stream"`
}

type rt2 struct {
	bodies []io.Reader
	n      int
}

func (t *rt2) RoundTrip(req *http.Request) (*http.Response, error) {
	if t.n >= len(t.bodies) {
		return nil, errors.New("no more scripted responses")
	}
	b := t.bodies[t.n]
	t.n++
	return &http.Response{StatusCode: 200, Status: "200 OK", Proto: "HTTP/1.1", ProtoMajor: 1, ProtoMinor: 1,
		Header: http.Header{"Content-Type": {"text/event-stream"}}, Body: io.NopCloser(b), Request: req}, nil
}

// JudgePair returns signature NUL message, or "".
func JudgePair(c PairCase) (v string) {
	desc := fmt.Sprintf("first stream %q (end error %q), then a reconnection with stream %q", c.Stream, c.EndErr, c.Second)
	defer func() {
		if r := recover(); r != nil {
			v = "the code under test panicked\x00" + desc + fmt.Sprintf(": panic: %v", r)
		}
	}()
	first := ref.Interpret(c.Stream, ref.Mode{RetryDispatches: true, NoFlushAtEnd: c.EndErr != ""})
	second := ref.Interpret(c.Second, ref.Mode{RetryDispatches: true, InitialLastEventID: first.LastEventID})
	want := append(append([]ref.Event{}, first.Events...), second.Events...)
	tr := &rt2{bodies: []io.Reader{&ChunkReader{Data: c.Stream, EndErr: endErrOf(c.EndErr)}, &ChunkReader{Data: c.Second}}}
	cl := sse.Client{HTTPClient: &http.Client{Transport: tr}, ResponseValidator: sse.NoopValidator, Backoff: sse.Backoff{MaxRetries: 1, InitialInterval: 1, Jitter: -1}}
	conn := cl.NewConnection(baseReq)
	var got []sse.Event
	conn.SubscribeToAll(func(e sse.Event) { got = append(got, e) })
	_ = conn.Connect()
	if len(got) != len(want) {
		return "Connection: events across a reconnection differ from the reference\x00" + desc + fmt.Sprintf(": got %d events %+v, reference %d events %+v", len(got), got, len(want), want)
	}
	for i := range want {
		if got[i].LastEventID != want[i].LastEventID || got[i].Type != want[i].Type || got[i].Data != want[i].Data {
			return "Connection: events across a reconnection differ from the reference\x00" + desc + fmt.Sprintf(": event %d is %+v, reference %+v (the ID of an event that was never dispatched must not survive)", i, got[i], want[i])
		}
	}
	return ""
}

// Judge compares with the reference. It returns signature NUL message, or "".
func Judge(c Case) (v string) {
	defer func() {
		if r := recover(); r != nil {
			v = viol("the code under test panicked", c, "panic: %v", r)
		}
	}()
	want := ref.Interpret(c.Stream, ref.Mode{RetryDispatches: c.Conn, NoFlushAtEnd: c.EndErr != ""})
	got, err, afterErr := RunImpl(c)
	entry := "Read"
	if c.Conn {
		entry = "Connection"
	}
	exp := want.Events
	stopped := false
	if !c.Conn && c.StopAfter >= 1 && c.StopAfter <= len(exp) {
		exp = exp[:c.StopAfter] // the consumer returned false right after this event: nothing more may be yielded
		stopped = true
	}
	if afterErr {
		return viol(entry+": something was yielded together with or after an error", c, "an event or a second error was yielded together with / after an error")
	}
	if len(got) != len(exp) {
		return viol(classify(entry, c.Stream, got, exp), c, "got %d events %+v, reference %d events %+v", len(got), got, len(exp), exp)
	}
	for i := range exp {
		if got[i].LastEventID != exp[i].LastEventID || got[i].Type != exp[i].Type || got[i].Data != exp[i].Data {
			return viol(classify(entry, c.Stream, got, exp), c, "event %d is %+v, reference %+v", i, got[i], exp[i])
		}
	}
	if stopped {
		if err != nil {
			return viol(entry+": error after an early stop", c, "iteration was stopped after %d events but an error %v was yielded", c.StopAfter, err)
		}
		return ""
	}
	if c.EndErr != "" {
		// not a clean end: the reader's error itself, whatever was pending
		if e := endErrOf(c.EndErr); !errors.Is(err, e) || errors.Is(err, sse.ErrUnexpectedEOF) {
			return viol(entry+": a read error at the end of the stream is not reported as itself", c, "the reader failed with %q but the error reported is %v", e, err)
		}
		return ""
	}
	isUEOF := errors.Is(err, sse.ErrUnexpectedEOF)
	if want.UnterminatedTail && !isUEOF {
		return viol(entry+": unterminated last line not reported as ErrUnexpectedEOF", c, "the stream ends inside a line but the error is %v", err)
	}
	if !want.UnterminatedTail && isUEOF {
		return viol(entry+": ErrUnexpectedEOF although the last line is terminated", c, "the stream ends on a line boundary but ErrUnexpectedEOF was reported")
	}
	if !c.Conn && !want.UnterminatedTail && err != nil {
		return viol(entry+": error at a clean end of stream", c, "Read yielded %v for a stream that ends cleanly", err)
	}
	return ""
}

func max(a, b int) int {
	if a > b {
		return a
	}
	return b
}

func viol(sig string, c Case, format string, args ...any) string {
	return sig + "\x00" + c.String() + ": " + fmt.Sprintf(format, args...)
}

// classify names the class of a mismatch for the known-findings list.
func classify(entry, stream string, got []sse.Event, exp []ref.Event) string {
	switch {
	case strings.Contains(stream, "\xEF\xBB\xBF") && !strings.HasPrefix(stream, "\xEF\xBB\xBF") && bomAfterBlank(stream) && len(got) > len(exp):
		return entry + ": BOM after leading blank lines is stripped (not at the stream start)"
	}
	rel := "different events"
	if len(got) > len(exp) {
		rel = "more events than the reference"
	} else if len(got) < len(exp) {
		rel = "fewer events than the reference"
	}
	return entry + ": " + rel
}

func bomAfterBlank(s string) bool {
	t := strings.TrimLeft(s, "\r\n")
	return strings.HasPrefix(t, "\xEF\xBB\xBF")
}

// ---------------------------------------------------------------------------
// enumeration

var Tokens = []string{"\n", "\r", "data", "id", "event", "retry", ":", " ", "x", "1", "+", "\x00", "\xEF\xBB\xBF", "\xff"}

var Lines = []string{"", "data:x", "data: x", "data", "id:a", "id:", "id:\x00", "event:t", "retry:1", ":c", "foo:1", "\xEF\xBB\xBFdata:x", "retry:+1", "retry:1x", "retry: -0", "data:  x", "id:  a ", "retry:0", "retry: 00", "retry:9999999999999"}
var Terms = []string{"\n", "\r", "\r\n"}

// segmentations calls f with every cut set in the family for a string of n bytes.
func segmentations(n, allBelow, pairBelow int, f func(cuts []int, eofWithLast bool)) {
	if n <= 1 {
		f(nil, false)
		f(nil, true)
		return
	}
	if n <= allBelow {
		for mask := 0; mask < 1<<(n-1); mask++ {
			var cuts []int
			for b := 0; b < n-1; b++ {
				if mask>>b&1 == 1 {
					cuts = append(cuts, b+1)
				}
			}
			f(cuts, false)
			if mask == 0 || mask == 1<<(n-1)-1 {
				f(cuts, true)
			}
		}
		return
	}
	f(nil, false)
	f(nil, true)
	all := make([]int, 0, n-1)
	for i := 1; i < n; i++ {
		all = append(all, i)
	}
	f(all, false)
	f(all, true)
	for i := 1; i < n; i++ {
		f([]int{i}, false)
		if n <= pairBelow {
			for j := i + 1; j < n; j++ {
				f([]int{i, j}, false)
			}
		}
	}
}

type stats struct {
	cases, nontrivial atomic.Int64
}

type collector struct {
	mu       sync.Mutex
	c        *sqrun.Ctx
	stop     atomic.Bool
	samples  []any
	st       stats
	timedOut atomic.Bool
	connAll  bool
}

func (k *collector) judgePair(c PairCase) {
	k.st.cases.Add(1)
	k.st.nontrivial.Add(1)
	v := JudgePair(c)
	if v == "" {
		return
	}
	i := strings.IndexByte(v, 0)
	sig, msg := v[:i], v[i+1:]
	k.mu.Lock()
	defer k.mu.Unlock()
	k.c.Rep.Add(sig, msg, func() string {
		return ev.WriteReplay(k.c.Prop, sig, map[string]any{"property": k.c.Prop, "pair_case": c, "violation": msg, "signature": sig, "how_to_replay": "./check " + k.c.Prop + " --replay <this file>"})
	})
}

func (k *collector) judge(c Case, nontrivial bool) {
	k.st.cases.Add(1)
	if nontrivial {
		k.st.nontrivial.Add(1)
	}
	v := Judge(c)
	if v == "" {
		return
	}
	i := strings.IndexByte(v, 0)
	sig, msg := v[:i], v[i+1:]
	k.mu.Lock()
	defer k.mu.Unlock()
	if k.c.Rep.Add(sig, msg, func() string {
		return ev.WriteReplay(k.c.Prop, sig, map[string]any{"property": k.c.Prop, "case": c, "violation": msg, "signature": sig, "how_to_replay": "./check " + k.c.Prop + " --replay <this file>"})
	}) {
		if len(k.c.Rep.Violations) >= 8 {
			k.stop.Store(true)
		}
	}
}

// checkStream runs one stream through both entry points and all segmentations / early stops.
func (k *collector) checkStream(s string, allBelow, pairBelow int) {
	want := ref.Interpret(s, ref.Mode{})
	nt := len(want.Events) > 0 || want.UnterminatedTail
	segmentations(len(s), allBelow, pairBelow, func(cuts []int, eofWithLast bool) {
		k.judge(Case{Stream: s, Cuts: cuts, EOFWithLast: eofWithLast, StopAfter: -1}, nt)
		if k.connAll || len(cuts) <= 1 || len(cuts) == len(s)-1 {
			// quick tier: the Connection entry point (same parser underneath) gets whole / byte-at-a-time / single cuts
			k.judge(Case{Stream: s, Cuts: cuts, EOFWithLast: eofWithLast, StopAfter: -1, Conn: true}, nt)
		}
		if len(cuts) == 0 || len(cuts) == len(s)-1 || (len(cuts) == 1 && cuts[0] == len(s)-1) {
			// the same segmentation (whole, byte at a time, last byte on its own) ending in a read error instead of a clean end
			for _, ee := range []string{"plain", "wraps-eof"} {
				k.judge(Case{Stream: s, Cuts: cuts, EOFWithLast: eofWithLast, StopAfter: -1, EndErr: ee}, true)
				k.judge(Case{Stream: s, Cuts: cuts, EOFWithLast: eofWithLast, StopAfter: -1, Conn: true, EndErr: ee}, true)
			}
		}
		if len(cuts) == 0 || len(cuts) == len(s)-1 {
			for p := 1; p <= len(want.Events); p++ {
				k.judge(Case{Stream: s, Cuts: cuts, EOFWithLast: eofWithLast, StopAfter: p}, true)
			}
		}
	})
}

func parallel(k *collector, n int, gen func(i int) string, allBelow, pairBelow int) {
	var next atomic.Int64
	var wg sync.WaitGroup
	for w := 0; w < runtime.NumCPU(); w++ {
		wg.Add(1)
		go func() {
			defer wg.Done()
			for {
				i := int(next.Add(1)) - 1
				if i >= n || k.stop.Load() {
					return
				}
				if i%512 == 0 && timeUp(k.c) {
					k.timedOut.Store(true)
					return
				}
				k.checkStream(gen(i), allBelow, pairBelow)
			}
		}()
	}
	wg.Wait()
}
