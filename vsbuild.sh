#!/bin/sh
# builds the instrumented checker into bin/vschk-dev (development helper; checks use ./check)
cd "$(dirname "$0")"; . ./env.sh
mkdir -p /tmp/vsdev && bin/vxform -race -out /tmp/vsdev/x 2>/dev/null && go build -overlay /tmp/vsdev/x/overlay.json -o bin/vschk-dev ./cmd/vschk
