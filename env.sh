export GOFLAGS=-mod=mod GOPROXY=off GOSUMDB=off GOTOOLCHAIN=local
