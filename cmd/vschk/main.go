// vschk runs the scheduler-explored checks against the instrumented build of go-sse.
package main

import (
	"fmt"
	"os"

	"verif/vs/c03"
	"verif/vs/c04"
	"verif/vs/c05"
	"verif/vs/c06"
	"verif/vs/c07"
	"verif/vs/c10"
	"verif/vs/c11"
	"verif/vs/c12"
	"verif/vs/c13"
	"verif/vs/c17"
	"verif/vs/run"
	"verif/vs/selftest"
)

var checks = map[string]*run.Check{
	"C03": c03.Check,
	"C04": c04.Check,
	"C05": c05.Check,
	"C06": c06.Check,
	"C07": c07.Check,
	"C10": c10.Check,
	"C11": c11.Check,
	"C12": c12.Check,
	"C13": c13.Check,
	"C17": c17.Check,
}

func main() {
	if len(os.Args) < 2 {
		fmt.Fprintln(os.Stderr, "usage: vschk <property> [--tier quick|thorough] [--replay file]")
		os.Exit(2)
	}
	if os.Args[1] == "SELFTEST" {
		rep, failed := selftest.Run()
		for _, l := range rep {
			fmt.Println(l)
		}
		if failed > 0 {
			fmt.Println("SELFTEST FAILED:", failed)
			os.Exit(2)
		}
		fmt.Println("SELFTEST OK")
		return
	}
	c, ok := checks[os.Args[1]]
	if !ok {
		fmt.Fprintln(os.Stderr, "unknown property", os.Args[1])
		os.Exit(2)
	}
	os.Exit(run.Main(c, os.Args[2:]))
}
