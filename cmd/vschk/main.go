// vschk runs the scheduler-explored checks against the instrumented build of go-sse.
package main

import (
	"fmt"
	"os"

	"verif/vs/c06"
	"verif/vs/run"
)

var checks = map[string]*run.Check{
	"C06": c06.Check,
}

func main() {
	if len(os.Args) < 2 {
		fmt.Fprintln(os.Stderr, "usage: vschk <property> [--tier quick|thorough] [--replay file]")
		os.Exit(2)
	}
	c, ok := checks[os.Args[1]]
	if !ok {
		fmt.Fprintln(os.Stderr, "unknown property", os.Args[1])
		os.Exit(2)
	}
	os.Exit(run.Main(c, os.Args[2:]))
}
