// sqchk runs the sequential (seqx) checks against the uninstrumented go-sse from /repo.
package main

import (
	"fmt"
	"os"

	"verif/sq/c01"
	"verif/sq/c16"
	"verif/sq/c20"
	"verif/sq/msg"
	"verif/sq/rep"
	"verif/sq/sqrun"
)

var checks = map[string]*sqrun.Check{
	"C01": c01.Check,
	"C02": msg.C02,
	"C14": msg.C14,
	"C15": msg.C15,
	"C16": c16.Check,
	"C19": msg.C19,
	"C20": c20.Check,
	"C08": rep.C08,
	"C09": rep.C09,
	"C18": rep.C18,
}

func main() {
	if len(os.Args) < 2 {
		fmt.Fprintln(os.Stderr, "usage: sqchk <property> [--tier quick|thorough] [--replay file]")
		os.Exit(2)
	}
	c, ok := checks[os.Args[1]]
	if !ok {
		fmt.Fprintln(os.Stderr, "unknown property", os.Args[1])
		os.Exit(2)
	}
	os.Exit(sqrun.Main(c, os.Args[2:]))
}
