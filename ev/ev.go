// Package ev writes evidence files, replay files and handles the known-findings list.
// It is shared by all checks and does not import go-sse.
package ev

import (
	"encoding/json"
	"fmt"
	"os"
	"path/filepath"
	"sort"
	"strconv"
	"strings"
	"sync"
	"time"
)

// Root is /verif (the directory holding MANIFEST.json); overridable for tests.
var Root = func() string {
	if r := os.Getenv("VERIF_ROOT"); r != "" {
		return r
	}
	return "/verif"
}()

type Coverage map[string]any

type Evidence struct {
	PropertyID       string   `json:"property_id"`
	Tier             string   `json:"tier"`
	Seed             int      `json:"seed"`
	Level            string   `json:"level"`
	Coverage         Coverage `json:"coverage"`
	Assumptions      []string `json:"assumptions,omitempty"`
	WallS            float64  `json:"wall_s"`
	Violations       int      `json:"violations"`
	KnownFindingsHit []string `json:"known_findings_hit,omitempty"`
}

func Seed() int {
	n, _ := strconv.Atoi(os.Getenv("VERIF_SEED"))
	return n
}

func (e *Evidence) Write() error {
	dir := filepath.Join(Root, "evidence")
	if err := os.MkdirAll(dir, 0o755); err != nil {
		return err
	}
	js, err := json.MarshalIndent(e, "", " ")
	if err != nil {
		return err
	}
	tmp := filepath.Join(dir, e.PropertyID+".json.tmp")
	if err := os.WriteFile(tmp, append(js, '\n'), 0o644); err != nil {
		return err
	}
	return os.Rename(tmp, filepath.Join(dir, e.PropertyID+".json"))
}

// WriteReplay stores a violation's replay artefact and returns its path.
func WriteReplay(prop, name string, v any) string {
	dir := filepath.Join(Root, "replays", prop)
	_ = os.MkdirAll(dir, 0o755)
	name = strings.Map(func(r rune) rune {
		if r >= 'a' && r <= 'z' || r >= 'A' && r <= 'Z' || r >= '0' && r <= '9' || r == '-' || r == '_' || r == '.' {
			return r
		}
		return '_'
	}, name)
	if len(name) > 80 {
		name = name[:80]
	}
	p := filepath.Join(dir, name+".json")
	js, _ := json.MarshalIndent(v, "", " ")
	_ = os.WriteFile(p, append(js, '\n'), 0o644)
	return p
}

// ---------------------------------------------------------------------------
// known findings

type Finding struct {
	Property  string `json:"property"`
	Status    string `json:"status"` // "known" (recorded, suppressed by signature) or "fixed" (suppresses nothing)
	Signature string `json:"signature"`
	Commit    string `json:"commit,omitempty"`
	What      string `json:"what"`
}

type Findings struct {
	Findings []Finding `json:"findings"`
}

// LoadKnown returns signature -> description for the findings of prop with status "known".
func LoadKnown(prop string) map[string]string {
	out := map[string]string{}
	b, err := os.ReadFile(filepath.Join(Root, "known_findings.json"))
	if err != nil {
		return out
	}
	var f Findings
	if json.Unmarshal(b, &f) != nil {
		return out
	}
	for _, x := range f.Findings {
		if x.Property == prop && x.Status == "known" {
			out[x.Signature] = x.What
		}
	}
	return out
}

// ---------------------------------------------------------------------------
// reporting

// Report collects the verdict of one check run and produces the output lines and exit code.
type Report struct {
	Prop       string
	Tier       string
	Start      time.Time
	Known      map[string]string
	KnownHit   map[string]int
	Violations []Violation
	mu         sync.Mutex
}

type Violation struct {
	Sig    string
	Msg    string
	Replay string
}

func NewReport(prop, tier string) *Report {
	return &Report{Prop: prop, Tier: tier, Start: time.Now(), Known: LoadKnown(prop), KnownHit: map[string]int{}}
}

// Add records a violation with signature sig; it returns true if the violation is new (not a known finding).
func (r *Report) Add(sig, msg string, replay func() string) bool {
	r.mu.Lock()
	defer r.mu.Unlock()
	if _, ok := r.Known[sig]; ok && sig != "" {
		r.KnownHit[sig]++
		return false
	}
	for _, v := range r.Violations {
		if v.Sig == sig && sig != "" {
			return true
		}
	}
	p := ""
	if replay != nil {
		p = replay()
	}
	r.Violations = append(r.Violations, Violation{Sig: sig, Msg: msg, Replay: p})
	return true
}

// Finish prints KNOWN-FINDING / VIOLATION lines and returns the exit code.
func (r *Report) Finish() int {
	sigs := make([]string, 0, len(r.KnownHit))
	for s := range r.KnownHit {
		sigs = append(sigs, s)
	}
	sort.Strings(sigs)
	for _, s := range sigs {
		fmt.Printf("KNOWN-FINDING: property=%s %s [signature %s, %d cases]\n", r.Prop, r.Known[s], s, r.KnownHit[s])
	}
	for _, v := range r.Violations {
		fmt.Printf("VIOLATION property=%s replay=%s\n", r.Prop, v.Replay)
		fmt.Printf("  signature: %s\n  %s\n", v.Sig, strings.ReplaceAll(v.Msg, "\n", "\n  "))
	}
	if len(r.Violations) > 0 {
		return 1
	}
	fmt.Printf("OK property=%s tier=%s wall=%.1fs\n", r.Prop, r.Tier, time.Since(r.Start).Seconds())
	return 0
}

func (r *Report) KnownHitList() []string {
	var out []string
	for s, n := range r.KnownHit {
		out = append(out, fmt.Sprintf("%s x%d", s, n))
	}
	sort.Strings(out)
	return out
}
