module verif

go 1.23

require github.com/tmaxmax/go-sse v0.0.0

replace github.com/tmaxmax/go-sse => /repo
